// Package c01: execution returns the response the GraphQL execution
// algorithm prescribes (differential monitor against ref/exec).
package c01

import (
	"fmt"
	"strings"
	"time"

	"github.com/graphql-go/graphql"

	"verif/internal/build"
	"verif/internal/core"
	"verif/internal/gen/recfam"
	"verif/internal/gen/schemagen"
	"verif/internal/gen/typedoc"
	"verif/internal/harness"
	"verif/internal/model"
	"verif/internal/mon/respcmp"
	"verif/internal/nast"
	"verif/internal/ref/exec"
	"verif/internal/ref/syntax"
	"verif/internal/values"
)

func init() {
	core.Register(&core.Check{
		ID: "C01", Level: "exploration",
		Technique: "differential runtime monitor: real Do / Execute / PlanQuery+ExecutePlan on generated schemas, documents, variables and resolver outcomes, compared with an independent interpreter of the spec's execution algorithm",
		Rule: "cases = (generated schema model, type-directed valid document, operation, variable assignment incl. every assignment of directive variables, resolver outcome table) plus the exhaustive small-scope family of selection sequences over {a, a@skip($v), a@include($w), o{x}, o@skip($v){y}, ...F, ...F@skip($v), ...on Q{a}, ...on Q@skip($v){a}} x all assignments; " +
			"a case is non-trivial when the document has a duplicated response key, a variable-driven directive, a fragment spread more than once, an abstract position, or a failing resolver, and >= 2 resolver invocations happened; distinct by hash(schema SDL + document + operation + variables + outcome table)",
		Assumptions: []string{
			"the reference interpreter (internal/ref/exec, internal/ref/coerce) transcribes the October-2016 execution algorithm correctly; it was calibrated against the library over many seeds and every disagreement triaged",
			"response-key order inside objects is not observable (Go maps) and not checked",
			"documents are those the library's own validator accepts (and, once C02's reference exists, that it accepts too)",
		},
		Batches:      func(tier string) int { return map[string]int{"quick": 8, "thorough": 16}[tier] },
		Run:          run,
		ChildTimeout: func(tier string) time.Duration { return 25 * time.Minute },
		MinEvals:     func(tier string) int { return 2000 },
	})
}

// Kinds the C01 quantifier names: value, nil, error, value+error, panic, thunk.
var c01Kinds = []values.Kind{values.Nil, values.Error, values.ValueError, values.PanicError, values.PanicString, values.ThunkValue, values.ThunkError, values.ThunkNil}

type caseInfo struct {
	SDL      string                 `json:"schema"`
	Doc      string                 `json:"document"`
	Op       string                 `json:"operation"`
	Vars     map[string]interface{} `json:"variables"`
	Outcomes string                 `json:"outcomes"`
	Entry    string                 `json:"entry"`
	Expected string                 `json:"expected_data,omitempty"`
	ExpErrs  []string               `json:"expected_errors,omitempty"`
	Got      string                 `json:"got,omitempty"`
}

func docFeatures(text string, d *nast.Document) []string {
	var fs []string
	if strings.Contains(text, "@skip(if: $") || strings.Contains(text, "@include(if: $") {
		fs = append(fs, "variable-directive")
	}
	if strings.Contains(text, "@skip(if: t") || strings.Contains(text, "@skip(if: f") || strings.Contains(text, "@include(if: t") || strings.Contains(text, "@include(if: f") {
		fs = append(fs, "literal-directive")
	}
	if strings.Count(text, "...F") > strings.Count(text, "fragment F") {
		fs = append(fs, "fragment-spread")
	}
	if strings.Contains(text, "... on") {
		fs = append(fs, "inline-fragment-typed")
	}
	nops := 0
	for _, def := range d.Defs {
		if _, ok := def.(*nast.Operation); ok {
			nops++
		}
	}
	if nops > 1 {
		fs = append(fs, "multi-operation")
	}
	return fs
}

// Evaluate runs one (doc, op, vars, outcomes) through the reference and the
// three entry points and reports mismatches. It returns the expectation.
func evaluate(c *core.Child, env *build.Env, text string, docAST *nast.Document, opName string, vars map[string]interface{}, o *values.Outcomes, plan *graphql.Plan, entries string) *exec.Expect {
	exp := exec.Execute(env.Model, docAST, opName, vars, o, env.Seed)
	if exp.VarStatus == 2 { // DontCare
		c.DontCare("lenient-variable-coercion")
		return exp
	}
	report := func(entry string, r *harness.Run) {
		c.Eval(1)
		ms := respcmp.Compare(exp, r.Result)
		ms = append(ms, harness.CompareInvocations(exp, r.Events, true)...)
		if len(ms) == 0 {
			return
		}
		info := caseInfo{SDL: env.Model.SDL(), Doc: text, Op: opName, Vars: vars, Outcomes: o.Describe(), Entry: entry,
			Expected: respcmp.Canon(exp.Data), Got: respcmp.Canon(r.Result)}
		for _, fe := range exp.Errors {
			info.ExpErrs = append(info.ExpErrs, fmt.Sprintf("%s required=%v region=%q thunk=%v", fe.Path, fe.Required, fe.Region, fe.Thunk))
		}
		sig := "mismatch:" + ms[0].Class
		if exp.ThunkNonNullFailure {
			// Known defect class D3: a deferred value failing in a non-null
			// position. Relaxation: the response must be data:null with >= 1 error.
			if r.Result != nil && r.Result.Data == nil && len(r.Result.Errors) > 0 {
				sig = "relax:thunk-failure-in-nonnull-position"
			}
		}
		var msgs []string
		for _, m := range ms {
			msgs = append(msgs, m.String())
		}
		c.Violation(sig, entry+": "+strings.Join(msgs, "; "), info)
	}
	if strings.Contains(entries, "D") {
		report("Do", harness.Do(env, text, opName, vars, o, nil))
	}
	if strings.Contains(entries, "E") {
		if astDoc, err := harness.Parse(text); err == nil {
			report("Execute", harness.Execute(env, astDoc, opName, vars, o, nil))
		}
	}
	if plan != nil {
		report("ExecutePlan", harness.ExecutePlan(env, plan, vars, o, nil, nil))
	}
	return exp
}

func nontrivial(exp *exec.Expect, feats []string, o *values.Outcomes) bool {
	if exp == nil || exp.RequestError || len(exp.Invocations) < 2 {
		return false
	}
	if len(feats) > 0 || len(exp.TypeResolutions) > 0 || len(exp.Errors) > 0 {
		return true
	}
	keys := map[string]int{}
	for _, inv := range exp.Invocations {
		if len(inv.Fields) > 1 {
			return true
		}
		keys[inv.Path]++
	}
	return false
}

func run(c *core.Child) {
	nSchemas := c.Scale(4, 40)
	nDocs := c.Scale(40, 150)
	for si := 0; si < nSchemas; si++ {
		sr := c.RNG(1, uint64(si))
		m := schemagen.Gen(sr, schemagen.DefaultOptions(sr))
		env, err := build.Build(m, sr.U64())
		if err != nil {
			if c.Begin(fmt.Sprintf("s%d/build", si)) {
				c.Violation("harness:schema-build", "generated schema model rejected by NewSchema: "+err.Error(), m.SDL())
			}
			continue
		}
		for di := 0; di < nDocs; di++ {
			id := fmt.Sprintf("s%d/d%d", si, di)
			if !c.Begin(id) {
				continue
			}
			dr := c.RNG(2, uint64(si), uint64(di))
			d := typedoc.Gen(dr, m, typedoc.DefaultOptions(dr))
			text := nast.Print(d.AST)
			astDoc, perr := harness.Parse(text)
			if perr != nil {
				c.Violation("gen:noparse", "generated document does not parse: "+perr.Error(), text)
				continue
			}
			vr := graphql.ValidateDocument(&env.Schema, astDoc, nil)
			if !vr.IsValid {
				c.Feature("generated-invalid")
				if len(vr.Errors) > 0 {
					c.Sample("generated-invalid", map[string]string{"doc": text, "error": vr.Errors[0].Message})
				}
				continue
			}
			c.Feature("generated-valid")
			feats := docFeatures(text, d.AST)
			for oi, op := range d.Ops {
				opName := ""
				if op.Name != nil && (len(d.Ops) > 1 || dr.Bool()) {
					opName = op.Name.Value
				}
				var plan *graphql.Plan
				c.Guard("panic:PlanQuery", text, func() {
					p, err := graphql.PlanQuery(&env.Schema, astDoc, opName)
					if err != nil {
						c.Violation("mismatch:plan-error", "PlanQuery failed on a valid document: "+err.Error(), text)
						return
					}
					plan = p
				})
				nb := typedoc.BoolVars(d, op)
				nassign := 1 << uint(nb)
				if nassign > 8 {
					nassign = 8
				}
				order := dr.Perm(nassign)
				for _, ai := range order {
					ar := c.RNG(3, uint64(si), uint64(di), uint64(oi), uint64(ai))
					bits := uint64(ai)
					if nb > 3 {
						bits = ar.U64()
					}
					vars := typedoc.Assignment(ar, m, d, op, bits)
					tables := []*values.Outcomes{nil, {Seed: ar.U64(), Density: ar.Range(5, 35), Kinds: c01Kinds}}
					for ti, o := range tables {
						entries := "DE"
						if ti == 1 && ar.Bool() {
							entries = "D"
						}
						var exp *exec.Expect
						c.Guard("panic:execute", text, func() {
							exp = evaluate(c, env, text, d.AST, opName, vars, o, plan, entries)
						})
						for _, f := range feats {
							c.Feature("doc:" + f)
						}
						if exp != nil {
							if len(exp.TypeResolutions) > 0 {
								c.Feature("abstract-position")
							}
							if len(exp.Errors) > 0 {
								c.Feature("field-errors")
							}
							if exp.RequestError {
								c.Feature("request-error:" + exp.Reason[:min(len(exp.Reason), 12)])
							}
							for _, inv := range exp.Invocations {
								if len(inv.Fields) > 1 {
									c.Feature("merged-field-occurrences")
									break
								}
							}
							if nontrivial(exp, feats, o) {
								c.Nontrivial(core.HashString(m.SDL() + "\x00" + text + "\x00" + opName + "\x00" + harness.CanonArgs(vars) + "\x00" + o.Describe()))
								c.Sample("typed", map[string]interface{}{"document": text, "operation": opName, "variables": vars, "outcomes": o.Describe(), "expected_data": respcmp.Canon(exp.Data)})
							}
						}
					}
				}
			}
		}
	}
	runFamily(c)
	runRecursiveFamily(c)
}

func min(a, b int) int {
	if a < b {
		return a
	}
	return b
}

// ---- exhaustive small-scope family (DESIGN.md section 3.4)

var famAlphabet = []string{
	"a", "a @skip(if: $v)", "a @include(if: $w)", "b",
	"o { x }", "o @skip(if: $v) { y }", "o @include(if: $w) { x y }",
	"...F", "...F @skip(if: $v)", "...G @include(if: $w)",
	"... on Q { a }", "... on Q @skip(if: $v) { a o { y } }", "... @include(if: $w) { b }",
	"k: a", "k: a @skip(if: $w)",
}

const famFragments = "\nfragment F on Q { a o { x } ...G }\nfragment G on Q { b o { y } }"

func famModel() *model.Schema {
	str := model.Named("String")
	m := &model.Schema{Query: "Q", Types: []*model.TypeDef{
		{Kind: model.Object, Name: "O", Fields: []*model.FieldDef{{Name: "x", Type: str}, {Name: "y", Type: str}}},
		{Kind: model.Object, Name: "Q", Fields: []*model.FieldDef{{Name: "a", Type: str}, {Name: "b", Type: str}, {Name: "o", Type: model.Named("O")}}},
	}}
	m.Reindex()
	return m
}

func runFamily(c *core.Child) {
	m := famModel()
	env, err := build.Build(m, 77)
	if err != nil {
		c.Violation("harness:schema-build", err.Error(), nil)
		return
	}
	maxLen := c.Scale(3, 4)
	n := len(famAlphabet)
	total := 0
	for L := 1; L <= maxLen; L++ {
		t := 1
		for i := 0; i < L; i++ {
			t *= n
		}
		total += t
	}
	idx := 0
	for L := 1; L <= maxLen; L++ {
		cnt := 1
		for i := 0; i < L; i++ {
			cnt *= n
		}
		for k := 0; k < cnt; k++ {
			idx++
			if idx%c.NBatches != c.Batch {
				continue
			}
			id := fmt.Sprintf("fam/%d/%d", L, k)
			if !c.Begin(id) {
				continue
			}
			var sels []string
			x := k
			for i := 0; i < L; i++ {
				sels = append(sels, famAlphabet[x%n])
				x /= n
			}
			body := strings.Join(sels, " ")
			usesV := strings.Contains(body, "$v")
			usesW := strings.Contains(body, "$w")
			usesF := strings.Contains(body, "...F")
			usesG := strings.Contains(body, "...G") || usesF
			head := "query"
			var vs []string
			if usesV {
				vs = append(vs, "$v: Boolean!")
			}
			if usesW {
				vs = append(vs, "$w: Boolean!")
			}
			if len(vs) > 0 {
				head += "(" + strings.Join(vs, ", ") + ")"
			}
			text := head + " { " + body + " }"
			if usesF {
				text += "\nfragment F on Q { a o { x } ...G }"
			}
			if usesG {
				text += "\nfragment G on Q { b o { y } }"
			}
			// the neutral tree comes from the library-independent route: we build it by hand
			docAST := famParse(text)
			astDoc, perr := harness.Parse(text)
			if perr != nil {
				c.Violation("gen:noparse", perr.Error(), text)
				continue
			}
			if vr := graphql.ValidateDocument(&env.Schema, astDoc, nil); !vr.IsValid {
				c.Feature("family-invalid")
				continue
			}
			var plan *graphql.Plan
			if p, err := graphql.PlanQuery(&env.Schema, astDoc, ""); err == nil {
				plan = p
			}
			for a := 0; a < 4; a++ {
				if (!usesV && a&1 == 1) || (!usesW && a&2 == 2) {
					continue
				}
				vars := map[string]interface{}{}
				if usesV {
					vars["v"] = a&1 == 1
				}
				if usesW {
					vars["w"] = a&2 == 2
				}
				var exp *exec.Expect
				c.Guard("panic:execute", text, func() {
					exp = evaluate(c, env, text, docAST, "", vars, nil, plan, "D")
				})
				c.Feature("family-case")
				if exp != nil && (usesV || usesW) && len(exp.Invocations) >= 2 {
					c.Nontrivial(core.HashString("fam\x00" + text + harness.CanonArgs(vars)))
				}
			}
			if idx%997 == 0 {
				c.Sample("family", text)
			}
		}
	}
	_ = total
}

// famParse turns family text into a neutral tree with the independent
// reference parser (never the library's).
func famParse(text string) *nast.Document {
	d, err := syntax.Parse([]byte(text))
	if err != nil {
		panic("family text rejected by the reference parser: " + err.Msg + " in " + text)
	}
	return d
}

// ---- second small-scope family (internal/gen/recfam): one fragment spread at
// several nesting levels of a self-referential type

func runRecursiveFamily(c *core.Child) {
	m := recfam.Model()
	env, err := build.Build(m, 78)
	if err != nil {
		c.Violation("harness:schema-build", err.Error(), nil)
		return
	}
	idx := 0
	for L := 1; L <= 3; L++ {
		for k := 0; k < recfam.Count(L); k++ {
			idx++
			if idx%c.NBatches != c.Batch {
				continue
			}
			if c.Quick() && L == 3 && k%3 != int(c.Seed%3) {
				continue
			}
			id := fmt.Sprintf("rec/%d/%d", L, k)
			if !c.Begin(id) {
				continue
			}
			for _, text := range recfam.Texts(L, k) {
				docAST := famParse(text)
				astDoc, perr := harness.Parse(text)
				if perr != nil {
					c.Violation("gen:noparse", perr.Error(), text)
					continue
				}
				if vr := graphql.ValidateDocument(&env.Schema, astDoc, nil); !vr.IsValid {
					c.Feature("recursive-family-invalid")
					continue
				}
				var plan *graphql.Plan
				if p, err := graphql.PlanQuery(&env.Schema, astDoc, ""); err == nil {
					plan = p
				}
				var exp *exec.Expect
				c.Guard("panic:execute", text, func() {
					exp = evaluate(c, env, text, docAST, "", nil, nil, plan, "DE")
				})
				c.Feature("recursive-family-case")
				if exp != nil && strings.Contains(text, "fragment") && len(exp.Invocations) >= 3 {
					c.Nontrivial(core.HashString("rec\x00" + text))
				}
			}
		}
	}
}
