// Package c09: no input makes a public entry point panic, hang or return a
// malformed result (seeded fuzz driver; crash / shape / step-envelope monitor).
package c09

import (
	"context"
	"encoding/json"
	"fmt"
	"math"
	"os"
	"strings"
	"sync/atomic"
	"time"

	"github.com/graphql-go/graphql"
	"github.com/graphql-go/graphql/language/ast"
	"github.com/graphql-go/graphql/language/parser"
	"github.com/graphql-go/graphql/language/printer"
	"github.com/graphql-go/graphql/language/source"
	"github.com/graphql-go/graphql/verifhook"

	"verif/internal/build"
	"verif/internal/core"
	"verif/internal/gen/bytegen"
	"verif/internal/gen/gramdoc"
	"verif/internal/gen/schemagen"
	"verif/internal/gen/typedoc"
	"verif/internal/model"
	"verif/internal/mon/gorou"
	"verif/internal/nast"
)

func init() {
	core.Register(&core.Check{
		ID: "C09", Level: "exploration",
		Technique: "seeded generative fuzzing of the real entry points in child processes (journalled inputs, recover around every call, process death attributed to the last journalled input) with an intrinsic result-shape monitor and an online step-counter termination envelope (verifhook counters as logical time)",
		Rule:      "case = (entry point, input): request bytes (token sequences, grammar-generated and typed documents, token/byte mutations, lexical corner cases) with random operation names and JSON-like variable maps incl. wrong kinds / deep nesting / huge numbers; unvalidated parsed documents (typed documents mutated at token level, cyclic fragments, unknown names, type-system definitions mixed in, no or several operations) handed directly to ValidateDocument, PlanQuery, Execute, ExecuteSubscription, PlanCache.Get, printer.Print; schemas with and without mutation / subscription roots; zero-valued parameters; non-trivial: the input got past the lexer (>= 2 tokens) and reached validation, planning or execution; distinct by hash(entry, input)",
		Assumptions: []string{
			"termination is decided on logical time: total verifhook steps <= 5*(size+64)^2 + 50000 where size = input bytes (200x above the largest ratio observed on the clean tree), enforced online; a wall-clock watchdog only guards the child and its firing is inconclusive unless confirmed by an isolated re-run",
			"findings are per panic site (first library frame), not per input",
		},
		Batches:      func(tier string) int { return map[string]int{"quick": 8, "thorough": 16}[tier] },
		Run:          run,
		ChildTimeout: func(tier string) time.Duration { return 20 * time.Minute },
		MinEvals:     func(tier string) int { return 5000 },
	})
}

const envC = 5.0

// guarded runs one library call with recover and the online step envelope.
func guarded(c *core.Child, entry string, size int, input string, f func()) (panicked bool) {
	// calibrated on the clean tree: the largest observed steps/(size+64)^2 over
	// every entry point and input class is 0.025; the envelope is 200x above it
	limit := uint64(envC*math.Pow(float64(size+64), 2)) + 50000
	base := verifhook.Total()
	var done atomic.Bool
	stop := make(chan struct{})
	go func() {
		for {
			select {
			case <-stop:
				return
			default:
			}
			if d := verifhook.Total() - base; d > limit && !done.Load() {
				c.Violation("steps:"+entry, fmt.Sprintf("%s exceeded the step envelope while still running (> %d steps for %d input bytes)", entry, limit, size), trunc(input))
				os.Exit(0)
			}
			time.Sleep(300 * time.Microsecond)
		}
	}()
	panicked = c.Guard("panic:"+entry, trunc(input), f)
	done.Store(true)
	close(stop)
	c.Eval(1)
	d := float64(verifhook.Total() - base)
	c.MaxExtra("max_steps_per_byte2:"+entry, d/math.Pow(float64(size+64), 2))
	c.MaxExtra("max_steps:"+entry, d)
	return panicked
}

func trunc(s string) string {
	if len(s) > 1500 {
		return s[:1500] + "…"
	}
	return s
}

// checkResult is the intrinsic result-shape monitor.
func checkResult(c *core.Child, entry, input string, r *graphql.Result, mustHaveNoData bool) {
	if r == nil {
		c.Violation("shape:nil-result:"+entry, entry+" returned a nil result", trunc(input))
		return
	}
	if _, err := json.Marshal(r); err != nil {
		c.Violation("shape:unmarshalable:"+entry, entry+": result does not serialise: "+err.Error(), trunc(input))
	}
	hasData := r.Data != nil
	if m, ok := r.Data.(map[string]interface{}); ok && m == nil {
		hasData = false
	}
	if !hasData && len(r.Errors) == 0 {
		c.Violation("shape:no-data-no-error:"+entry, entry+": data absent and no error", trunc(input))
	}
	if mustHaveNoData && hasData {
		c.Violation("shape:data-despite-failure:"+entry, entry+": parsing or validation failed but the result carries data", trunc(input))
	}
}

func parse(text string) (*ast.Document, error) {
	return parser.Parse(parser.ParseParams{Source: source.NewSource(&source.Source{Body: []byte(text), Name: "GraphQL request"})})
}

// jsonish generates JSON-decodable variable maps, hostile ones included.
func jsonish(r *core.RNG, depth int) interface{} {
	switch x := r.Intn(12); {
	case x == 0:
		return nil
	case x == 1:
		return r.Bool()
	case x == 2:
		return float64(r.Intn(1000)) - 500
	case x == 3:
		return []float64{1e308, -1e308, 0.1, 1e-320, 9007199254740993, 2147483648, -2147483649}[r.Intn(7)]
	case x == 4:
		return []string{"", "a", "E0_V0", "true", "1", "\x00", "ü", strings.Repeat("x", 300)}[r.Intn(8)]
	case x == 5:
		return r.Intn(100)
	case x < 9 && depth > 0:
		n := r.Intn(4)
		l := make([]interface{}, n)
		for i := range l {
			l[i] = jsonish(r, depth-1)
		}
		return l
	case depth > 0:
		n := r.Intn(4)
		m := map[string]interface{}{}
		for i := 0; i < n; i++ {
			m[[]string{"f0", "f1", "f2", "f3", "x", ""}[r.Intn(6)]] = jsonish(r, depth-1)
		}
		return m
	}
	return "leaf"
}

func randomVars(r *core.RNG, text string) map[string]interface{} {
	if r.Chance(30) {
		return nil
	}
	out := map[string]interface{}{}
	// variables the text mentions, plus noise
	for i := 0; i < 30; i++ {
		name := fmt.Sprintf("v%d", i)
		if strings.Contains(text, "$"+name) && r.Chance(70) {
			out[name] = jsonish(r, 3)
		}
	}
	for _, n := range []string{"a", "x", "v"} {
		if strings.Contains(text, "$"+n) && r.Chance(60) {
			out[n] = jsonish(r, 3)
		}
	}
	if r.Chance(20) {
		out["unused"] = jsonish(r, 6)
	}
	return out
}

func opName(r *core.RNG) string {
	return []string{"", "", "", "Op0", "Op1", "X", "query", "\x00"}[r.Intn(8)]
}

// subscription-capable variant of a generated model
func withSubscription(m *model.Schema) *model.Schema {
	c := *m
	c.Types = append(append([]*model.TypeDef{}, m.Types...), &model.TypeDef{Kind: model.Object, Name: "S", Fields: []*model.FieldDef{
		{Name: "tick", Type: model.Named("Int")}, {Name: "obj", Type: model.Named(m.Query)}}})
	c.Subscription = "S"
	c.Reindex()
	return &c
}

type envs struct {
	full   *build.Env // query + mutation (+ subscription)
	bare   *build.Env // query only, abstract types without resolveType / isTypeOf where the library allows
	cache  *graphql.PlanCache
	ncache *graphql.PlanCache
}

func drain(ch chan *graphql.Result, max int) (n int, closed bool) {
	timeout := time.After(5 * time.Second)
	for n < max {
		select {
		case r, ok := <-ch:
			if !ok {
				return n, true
			}
			_ = r
			n++
		case <-timeout:
			return n, false
		}
	}
	return n, false
}

func run(c *core.Child) {
	nSchemas := c.Scale(2, 6)
	for si := 0; si < nSchemas; si++ {
		sr := c.RNG(1, uint64(si))
		so := schemagen.DefaultOptions(sr)
		so.Mutation = true
		m := schemagen.Gen(sr, so)
		ms := withSubscription(m)
		full, err := build.Build(ms, sr.U64())
		if err != nil {
			// the subscription root has no Subscribe functions; fall back
			full, err = build.Build(m, sr.U64())
			if err != nil {
				continue
			}
		}
		full.Quiet = true
		bo := so
		bo.Mutation = false
		bm := schemagen.Gen(c.RNG(11, uint64(si)), bo)
		bare, err := build.Build(bm, 7)
		if err != nil {
			continue
		}
		bare.Quiet = true
		e := &envs{full: full, bare: bare,
			cache:  graphql.NewPlanCache(graphql.PlanCacheOptions{MaxEntries: 8}),
			ncache: graphql.NewPlanCache(graphql.PlanCacheOptions{MaxEntries: 8, Normalize: true})}
		runBytes(c, e, m, si)
		runASTs(c, e, m, si)
	}
	runZero(c)
}

// inputs produces the i-th request text of a schema's input stream.
func inputText(c *core.Child, m *model.Schema, si, i int) (string, string) {
	r := c.RNG(2, uint64(si), uint64(i))
	switch i % 8 {
	case 0:
		L := 1 + i/8%5
		return bytegen.TokenSeq(r.U64()%bytegen.TokenSeqCount(L), L), "tokens"
	case 1:
		_, _, t := bytegen.CornerCase(int(r.U64() % uint64(bytegen.NumCornerCases())))
		return t, "corner"
	case 2:
		d := gramdoc.Gen(r, gramdoc.Options{Executable: true, TypeSystem: r.Chance(30), RichValues: true, MaxDepth: 4})
		return gramdoc.Render(d, gramdoc.RandomLayout(r)), "gramdoc"
	case 3, 4:
		d := typedoc.Gen(r, m, typedoc.DefaultOptions(r))
		return nast.Print(d.AST), "typed"
	case 5, 6:
		d := typedoc.Gen(r, m, typedoc.DefaultOptions(r))
		t := nast.Print(d.AST)
		for k := r.Range(1, 3); k > 0; k-- {
			t, _ = bytegen.Mutate(r, t)
		}
		return t, "typed-mutated"
	default:
		docs := bytegen.DocCorners()
		t := docs[r.Intn(len(docs))]
		if r.Bool() {
			t, _ = bytegen.Mutate(r, t)
		}
		return t, "doc-corner"
	}
}

func runBytes(c *core.Child, e *envs, m *model.Schema, si int) {
	n := c.Scale(1500, 20000)
	for i := 0; i < n; i++ {
		id := fmt.Sprintf("s%d/b%d", si, i)
		if !c.Begin(id) {
			continue
		}
		text, class := inputText(c, m, si, i)
		r := c.RNG(3, uint64(si), uint64(i))
		vars := randomVars(r, text)
		op := opName(r)
		env := e.full
		if r.Chance(25) {
			env = e.bare
		}
		c.Feature("bytes:" + class)
		if i%97 == 0 {
			c.Sample("bytes:"+class, map[string]interface{}{"request": trunc(text), "operationName": op, "variables": fmt.Sprint(vars)})
		}
		// reference verdict from the library's own stages (only used for the
		// "no data when parsing or validation failed" clause)
		var doc *ast.Document
		var perr error
		guarded(c, "parser.Parse", len(text), text, func() { doc, perr = parse(text) })
		invalid := perr != nil
		if doc != nil && perr == nil {
			guarded(c, "ValidateDocument", len(text), text, func() {
				invalid = !graphql.ValidateDocument(&env.Schema, doc, nil).IsValid
			})
			c.Nontrivial(core.HashString("bytes\x00" + text))
		}
		var res *graphql.Result
		if !guarded(c, "Do", len(text)*4, text, func() {
			res = graphql.Do(graphql.Params{Schema: env.Schema, RequestString: text, OperationName: op, VariableValues: vars})
		}) {
			checkResult(c, "Do", text, res, invalid)
		}
		if i%3 == 0 {
			guarded(c, "parser.ParseValue", len(text), text, func() {
				parser.ParseValue(parser.ParseParams{Source: source.NewSource(&source.Source{Body: []byte(text)})})
			})
		}
		if i%4 == 1 {
			for _, pc := range []*graphql.PlanCache{e.cache, e.ncache} {
				var pr graphql.PlanResult
				name := "PlanCache.Get"
				if pc == e.ncache {
					name = "PlanCache.Get(normalize)"
				}
				if guarded(c, name, len(text), text, func() { pr = pc.Get(&env.Schema, text, op) }) {
					continue
				}
				if pr.Plan == nil && len(pr.Errors) == 0 {
					c.Violation("shape:no-plan-no-error:"+name, name+" returned neither plan nor errors", trunc(text))
				}
				if pr.Plan != nil {
					args := map[string]interface{}{}
					for k, v := range vars {
						args[k] = v
					}
					for k, v := range pr.SynthArgs {
						args[k] = v
					}
					var r2 *graphql.Result
					if !guarded(c, "ExecutePlan", len(text)*4, text, func() {
						r2 = graphql.ExecutePlan(pr.Plan, graphql.ExecuteParams{Schema: env.Schema, Args: args})
					}) {
						checkResult(c, "ExecutePlan", text, r2, false)
					}
				}
			}
		}
		if i%5 == 2 {
			ctx, cancel := context.WithCancel(context.Background())
			var ch chan *graphql.Result
			if !guarded(c, "Subscribe", len(text)*4, text, func() {
				ch = graphql.Subscribe(graphql.Params{Schema: env.Schema, RequestString: text, OperationName: op, VariableValues: vars, Context: ctx})
			}) && ch != nil {
				_, closed := drain(ch, 3)
				cancel()
				if !closed {
					settle(c, ch, "Subscribe", text)
				}
			}
			cancel()
		}
	}
}

// runASTs hands parsed but unvalidated documents straight to the later stages.
func runASTs(c *core.Child, e *envs, m *model.Schema, si int) {
	n := c.Scale(1200, 15000)
	special := []string{
		"{ ...A } fragment A on Q { ...A }",
		"{ ...A } fragment A on Q { ...B } fragment B on Q { ...A }",
		"{ ...A } fragment A on Q { ...B q0 } fragment B on Q { ...C } fragment C on Q { ...D ...A } fragment D on Q { ...B }",
		"fragment A on Q { ...A }",
		"type T { a: Int } { __typename }",
		"scalar S",
		"query A { __typename } query A { __typename }",
		"{ __typename } { __typename }",
		"subscription { __typename }",
		"mutation { __typename }",
		"subscription { tick @skip(if: true) }",
		"subscription { nope }",
		"{ ... on Nope { x } ...Missing }",
		"query($a: Nope, $b: [Q]!, $c: Int = {a: 1}) { __typename @skip(if: $a) }",
		"{ __schema { types { name } } __type(name: 1) { name } }",
		"{ __typename @include }",
		"{ q0 { q0 { q0 { q0 } } } }",
		"extend type Q { x: Int }",
		"directive @d on FIELD { __typename }",
	}
	special = append(special, crossLevelCycles(m)...)
	special = append(special, subscriptionCycles(m)...)
	// diamonds: few fragments, exponentially many spread paths
	for _, depth := range []int{12, 30, 60} {
		var b strings.Builder
		b.WriteString("{ ...F0 }")
		for i := 0; i < depth; i++ {
			fmt.Fprintf(&b, " fragment F%d on %s { ...F%d ...F%d }", i, m.Query, i+1, i+1)
		}
		fmt.Fprintf(&b, " fragment F%d on %s { __typename }", depth, m.Query)
		special = append(special, b.String())
	}
	for i := 0; i < n; i++ {
		id := fmt.Sprintf("s%d/a%d", si, i)
		if !c.Begin(id) {
			continue
		}
		r := c.RNG(4, uint64(si), uint64(i))
		var text string
		if i < len(special)*2 {
			text = special[i%len(special)]
		} else {
			text, _ = inputText(c, m, si, i*7+3)
		}
		doc, perr := parse(text)
		if perr != nil || doc == nil {
			continue
		}
		c.Feature("ast:parsed")
		if i%97 == 0 {
			c.Sample("unvalidated-ast", map[string]interface{}{"document": trunc(text)})
		}
		c.Nontrivial(core.HashString("ast\x00" + text))
		env := e.full
		if r.Chance(30) {
			env = e.bare
		}
		vars := randomVars(r, text)
		op := opName(r)
		if i < len(special) {
			op = "" // first pass over the hand-written documents: the operation is found
		}
		size := len(text)
		guarded(c, "ValidateDocument", size, text, func() { graphql.ValidateDocument(&env.Schema, doc, nil) })
		// single rules too (a rule may rely on another having run)
		rule := graphql.SpecifiedRules[r.Intn(len(graphql.SpecifiedRules))]
		guarded(c, "ValidateDocument(one rule)", size, text, func() {
			graphql.ValidateDocument(&env.Schema, doc, []graphql.ValidationRuleFn{rule})
		})
		var plan *graphql.Plan
		guarded(c, "PlanQuery", size, text, func() { plan, _ = graphql.PlanQuery(&env.Schema, doc, op) })
		if plan != nil {
			var res *graphql.Result
			if !guarded(c, "ExecutePlan", size*4, text, func() {
				res = graphql.ExecutePlan(plan, graphql.ExecuteParams{Schema: env.Schema, Args: vars})
			}) {
				checkResult(c, "ExecutePlan", text, res, false)
			}
		}
		var res *graphql.Result
		if !guarded(c, "Execute", size*4, text, func() {
			res = graphql.Execute(graphql.ExecuteParams{Schema: env.Schema, AST: doc, OperationName: op, Args: vars})
		}) {
			checkResult(c, "Execute", text, res, false)
		}
		guarded(c, "printer.Print", size, text, func() { printer.Print(doc) })
		if i < len(special)*2 || i%4 == 0 {
			guarded(c, "PlanCache.Get(normalize)", size*2, text, func() { e.ncache.Get(&env.Schema, text, op) })
			guarded(c, "PlanCache.Get", size*2, text, func() { e.cache.Get(&env.Schema, text, op) })
		}
		if i < len(special)*2 || i%3 == 0 {
			ctx, cancel := context.WithCancel(context.Background())
			var ch chan *graphql.Result
			if !guarded(c, "ExecuteSubscription", size*4, text, func() {
				ch = graphql.ExecuteSubscription(graphql.ExecuteParams{Schema: env.Schema, AST: doc, OperationName: op, Args: vars, Context: ctx})
			}) && ch != nil {
				_, closed := drain(ch, 3)
				cancel()
				if !closed {
					settle(c, ch, "ExecuteSubscription", text)
				}
			}
			cancel()
		}
	}
}

// runZero: nil / zero-valued parameters.
func runZero(c *core.Child) {
	if c.Batch != 0 {
		return
	}
	q := graphql.NewObject(graphql.ObjectConfig{Name: "Q", Fields: graphql.Fields{"a": &graphql.Field{Type: graphql.String}}})
	schema, _ := graphql.NewSchema(graphql.SchemaConfig{Query: q})
	doc, _ := parse("{ a }")
	cases := []struct {
		name string
		f    func()
	}{
		{"Do(empty request)", func() { checkResult(c, "Do", "<empty>", graphql.Do(graphql.Params{Schema: schema}), true) }},
		{"Do(nil variables, nil context, nil root)", func() {
			checkResult(c, "Do", "{ a }", graphql.Do(graphql.Params{Schema: schema, RequestString: "{ a }"}), false)
		}},
		{"Execute(nil AST)", func() {
			checkResult(c, "Execute", "<nil AST>", graphql.Execute(graphql.ExecuteParams{Schema: schema}), false)
		}},
		{"ExecutePlan(nil plan)", func() {
			checkResult(c, "ExecutePlan", "<nil plan>", graphql.ExecutePlan(nil, graphql.ExecuteParams{Schema: schema}), false)
		}},
		{"PlanQuery(nil schema)", func() { graphql.PlanQuery(nil, doc, "") }},
		{"PlanQuery(nil doc)", func() { graphql.PlanQuery(&schema, nil, "") }},
		{"ValidateDocument(nil doc)", func() { graphql.ValidateDocument(&schema, nil, nil) }},
		{"ValidateDocument(nil schema)", func() { graphql.ValidateDocument(nil, doc, nil) }},
		{"PlanCache(nil).Get", func() { (*graphql.PlanCache)(nil).Get(&schema, "{ a }", "") }},
		{"PlanCache.Get(nil schema)", func() { graphql.NewPlanCache(graphql.PlanCacheOptions{}).Get(nil, "{ a }", "") }},
		{"PlanCache.Get(nil schema, normalize)", func() { graphql.NewPlanCache(graphql.PlanCacheOptions{Normalize: true}).Get(nil, "{ a }", "") }},
		{"printer.Print(nil)", func() { printer.Print(nil) }},
		{"Parse(nil source)", func() { parser.Parse(parser.ParseParams{}) }},
		{"Parse(string source)", func() { parser.Parse(parser.ParseParams{Source: "{ a }"}) }},
		{"ParseValue(empty)", func() { parser.ParseValue(parser.ParseParams{Source: ""}) }},
		{"Do(zero schema)", func() { checkResult(c, "Do", "{ a }", graphql.Do(graphql.Params{RequestString: "{ a }"}), false) }},
		{"Subscribe(zero schema)", func() {
			ch := graphql.Subscribe(graphql.Params{RequestString: "subscription { a }"})
			drain(ch, 2)
		}},
	}
	for i, cs := range cases {
		if !c.Begin(fmt.Sprintf("zero/%d", i)) {
			continue
		}
		c.Feature("zero-valued-parameters")
		guarded(c, cs.name, 64, cs.name, cs.f)
	}
}

// subscriptionCycles: unvalidated subscription documents whose fragment cycle
// passes through an inline fragment at the ROOT level (the subscribe step
// collects the root selection with its own collector).
func subscriptionCycles(m *model.Schema) []string {
	if m.Subscription == "" {
		m = withSubscription(m) // the schema the documents are run against is built from this variant
	}
	st := m.Type(m.Subscription)
	if st == nil {
		return nil
	}
	field := "__typename"
	for _, f := range st.Fields {
		need := false
		for _, a := range f.Args {
			if a.Type.Kind == "nonnull" {
				need = true
			}
		}
		if !need && m.IsLeaf(f.Type.Base()) {
			field = f.Name
			break
		}
	}
	S := m.Subscription
	return []string{
		fmt.Sprintf("subscription { ...A } fragment A on %s { %s ... on %s { ...A } }", S, field, S),
		fmt.Sprintf("subscription { ...A } fragment A on %s { %s ...B } fragment B on %s { ... { ...A } }", S, field, S),
		fmt.Sprintf("subscription { ... on %s { ...A } } fragment A on %s { ... on %s { ... { ...A %s } } }", S, S, S, field),
		fmt.Sprintf("subscription { ...A } fragment A on %s { ...A %s }", S, field),
	}
}

// crossLevelCycles builds documents whose fragment cycle passes THROUGH a
// field (so each selection set on its own sees every fragment only once):
// `{ q { ...A } } fragment A on T { f { ...A } }` for every self-referencing
// (T, f) of the model, and the two-step variant through another type.
func crossLevelCycles(m *model.Schema) []string {
	var out []string
	q := m.Type(m.Query)
	entry := func(t string) string {
		for _, f := range q.Fields {
			if f.Type.Base() == t {
				need := false
				for _, a := range f.Args {
					if a.Type.Kind == "nonnull" {
						need = true
					}
				}
				if !need {
					return f.Name
				}
			}
		}
		return ""
	}
	noArgs := func(f *model.FieldDef) bool {
		for _, a := range f.Args {
			if a.Type.Kind == "nonnull" {
				return false
			}
		}
		return true
	}
	for _, t := range m.Types {
		if t.Kind != model.Object || t.Name == m.Query || t.Name == m.Mutation {
			continue
		}
		e := entry(t.Name)
		if e == "" {
			continue
		}
		// a cycle that passes twice through one response name, spread next to a
		// same-named field that spreads it too — through a field the type does
		// not have (the sub-selections then have no parent type)
		out = append(out, fmt.Sprintf("{ %s { nosuchfield { ...F } ...F } } fragment F on %s { nosuchfield { nosuchfield { ...F } } }", e, t.Name))
		for _, f := range t.Fields {
			if !noArgs(f) {
				continue
			}
			if f.Type.Base() == t.Name {
				// the same shape on known fields, and under an unknown type condition
				out = append(out, fmt.Sprintf("{ %s { %s { ...F } ...F } } fragment F on %s { %s { %s { ...F } } }", e, f.Name, t.Name, f.Name, f.Name))
				out = append(out, fmt.Sprintf("{ %s { %s { ...F } ...F } } fragment F on NoSuchType { %s { %s { ...F } } }", e, f.Name, f.Name, f.Name))
				out = append(out, fmt.Sprintf("{ %s { ...A } } fragment A on %s { __typename %s { ...A } }", e, t.Name, f.Name))
				out = append(out, fmt.Sprintf("{ %s { ...A } } fragment A on %s { %s { ...B } } fragment B on %s { %s { ...A __typename } }", e, t.Name, f.Name, t.Name, f.Name))
				// the cycle passes through the SECOND of two same-key selections
				out = append(out, fmt.Sprintf("{ %s { ...A } } fragment A on %s { %s { __typename } %s { ...A } }", e, t.Name, f.Name, f.Name))
				out = append(out, fmt.Sprintf("{ %s { ...A } } fragment A on %s { s: %s { __typename } ... on %s { s: %s { __typename ...A } } }", e, t.Name, f.Name, t.Name, f.Name))
			}
			u := m.Type(f.Type.Base())
			if u == nil || u.Kind != model.Object || u.Name == t.Name {
				continue
			}
			for _, g := range u.Fields {
				if g.Type.Base() == t.Name && noArgs(g) {
					out = append(out, fmt.Sprintf("{ %s { ...A } } fragment A on %s { %s { %s { ...A } } }", e, t.Name, f.Name, g.Name))
				}
			}
		}
	}
	if len(out) > 16 {
		out = out[:16]
	}
	return out
}

// settle waits, after cancellation, for a subscription's result channel to be
// closed. "It hangs" is decided on goroutine STATE, never on elapsed time: a
// violation needs the library's subscription goroutines to be parked and
// unchanged over several samples (or to be gone while the channel is still
// open); as long as they are running the harness keeps draining.
func settle(c *core.Child, ch chan *graphql.Result, entry, text string) {
	for round := 0; round < 40; round++ {
		if _, closed := drain(ch, 1000); closed {
			return
		}
		smp := gorou.Query{Files: []string{"subscription.go"}}.Stable(3, 10)
		if len(smp.Hits) == 0 {
			if _, closed := drain(ch, 1000); closed {
				return
			}
			c.Violation("hang:"+entry, "after cancellation the result channel is still open and no library goroutine is left that could close it", trunc(text))
			return
		}
		if smp.Stable && smp.AllParked() {
			c.Violation("hang:"+entry, fmt.Sprintf("after cancellation the subscription's goroutines stay parked (%v) and the result channel is not closed", smp.States()), trunc(text))
			return
		}
	}
	c.Inconclusive("subscription did not settle after cancellation although its goroutines kept running")
}
