// Package props links every property check into the driver.
package props
