// Package props links every property check into the driver.
package props

import (
	_ "verif/internal/props/c01"
	_ "verif/internal/props/c02"
	_ "verif/internal/props/c03"
	_ "verif/internal/props/c04"
	_ "verif/internal/props/c05"
	_ "verif/internal/props/c06"
	_ "verif/internal/props/c07"
	_ "verif/internal/props/c08"
	_ "verif/internal/props/c09"
	_ "verif/internal/props/c10"
	_ "verif/internal/props/c11"
	_ "verif/internal/props/c12"
	_ "verif/internal/props/c13"
	_ "verif/internal/props/c14"
	_ "verif/internal/props/c15"
	_ "verif/internal/props/c16"
	_ "verif/internal/props/c17"
	_ "verif/internal/props/c18"
	_ "verif/internal/props/c19"
	_ "verif/internal/props/c20"
)
