package c03

import (
	"bufio"
	"os"
	"strconv"
	"testing"
)

// TestAdhoc is a development aid: with VERIF_C03_ADHOC=<file> it analyses
// every line of the file (a Go-quoted string without the surrounding quotes;
// a leading "V " selects ParseValue) and prints both verdicts.
func TestAdhoc(t *testing.T) {
	path := os.Getenv("VERIF_C03_ADHOC")
	if path == "" {
		t.Skip("VERIF_C03_ADHOC not set")
	}
	f, err := os.Open(path)
	if err != nil {
		t.Fatal(err)
	}
	defer f.Close()
	sc := bufio.NewScanner(f)
	for sc.Scan() {
		line := sc.Text()
		isValue := false
		if len(line) > 2 && line[:2] == "V " {
			isValue, line = true, line[2:]
		}
		s, err := strconv.Unquote(`"` + line + `"`)
		if err != nil {
			t.Logf("bad line %q: %v", line, err)
			continue
		}
		a := analyse([]byte(s), isValue, localGuard)
		v := explain(a, 0)
		ref := "accept"
		if a.refErr != nil {
			ref = "reject@" + strconv.Itoa(a.refErr.Pos) + " tok " + strconv.Itoa(a.refErr.TokIndex) + " (" + a.refErr.Msg + ")"
		}
		lib := "accept"
		if !a.libOK {
			lib = "reject (" + a.libErr + ")"
		}
		if a.panicked {
			lib = "PANIC " + a.panicMsg
		}
		t.Logf("%q\n   ref: %s\n   lib: %s\n   modified=%v sigs=%v", s, ref, lib, a.modified, v.sigs)
		for _, m := range a.mism {
			t.Logf("   mismatch %s: %s", m.sig, m.msg)
		}
		for _, m := range v.residual {
			t.Logf("   RESIDUAL %s: %s", m.sig, m.msg)
		}
	}
}
