// Package c03 is the runtime monitor of property C03: the parser accepts
// exactly the grammar, builds the AST the grammar assigns, reports locations
// that delimit each node's text, and does not modify its source.
// See README.md and DESIGN.md section 4 (C03).
package c03

import (
	"fmt"
	"os"
	"path/filepath"
	"runtime/debug"
	"runtime/pprof"
	"sort"
	"strings"
	"time"

	"verif/internal/core"
	"verif/internal/gen/bytegen"
	"verif/internal/gen/gramdoc"
	"verif/internal/nast"
	"verif/internal/ref/syntax"
)

func init() {
	core.Register(&core.Check{
		ID:        "C03",
		Level:     "exploration",
		Technique: "differential runtime monitor: parser.Parse / parser.ParseValue of the real library run next to an independent byte-based reference lexer + LL(1) recogniser (ref/syntax); accept/reject, AST (reflection-free adapter), node locations (byte or code-point reading) and source immutability are compared on every input",
		Rule: "inputs: every token sequence of length 1..4 over a 37-token alphabet (thorough: plus a seed-dependent quarter of length 5; VERIF_C03_FULL5=1 for all 69M), grammar-generated documents in random and compact layouts, token/byte mutations of those and of the kitchen-sink files, an enumerated lexical corner list in 10 contexts, layouts with multi-byte text and BOMs in ignored positions and strings. " +
			"A case is non-trivial when at least one side accepts it or the reference rejects it at token index >= 2; distinct = distinct hash of the input text",
		Assumptions: []string{
			"the dialect of DESIGN.md Appendix A.1 as refined in internal/props/c03/README.md (dialect decisions) is the grammar the library targets",
			"invalid UTF-8 and a number immediately followed by a name start are don't-care for accept/reject",
			"the value of a quoted string containing a surrogate \\u escape is don't-care",
			"the span of the Document node may extend over ignored text towards both ends of the input",
		},
		Batches: func(tier string) int {
			if tier == "thorough" {
				return 16
			}
			return 10
		},
		Run:          run,
		ChildTimeout: func(tier string) time.Duration { return 40 * time.Minute },
		MinEvals: func(tier string) int {
			if tier == "thorough" {
				return 15_000_000
			}
			return 1_500_000
		},
	})
}

type ck struct {
	c        *core.Child
	reported map[string]int // violations reported per known-class signature
	evals    int64
	kinds    map[string]int64
	kitchen  []string
}

// perClassCap bounds the violation records per known class and child, so
// that frequent known classes cannot exhaust the driver's per-child record
// limit and hide an unexplained mismatch. Every hit is still counted as a
// feature "hit:<signature>".
const perClassCap = 2

func run(c *core.Child) {
	k := &ck{c: c, reported: map[string]int{}}
	debug.SetGCPercent(400)                              // many tiny short-lived allocations per input; the live heap is small
	if p := os.Getenv("VERIF_C03_CPUPROFILE"); p != "" { // development aid
		if f, err := os.Create(fmt.Sprintf("%s.%d", p, c.Batch)); err == nil {
			pprof.StartCPUProfile(f)
			defer pprof.StopCPUProfile()
		}
	}
	for _, f := range []string{"kitchen-sink.graphql", "schema-kitchen-sink.graphql"} {
		repo := os.Getenv("VERIF_REPO")
		if repo == "" {
			repo = "/repo"
		}
		b, err := os.ReadFile(filepath.Join(repo, f))
		if err != nil {
			c.Feature("kitchen-sink-missing")
			continue
		}
		k.kitchen = append(k.kitchen, string(b))
	}
	// wall-clock below is telemetry only (evidence: telemetry_sum), never a verdict
	for _, w := range []struct {
		name string
		f    func()
	}{{"tokens", k.tokenSequences}, {"corners", k.corners}, {"gramdoc", k.grammarDocs}, {"mutations", k.mutations}, {"layouts", k.layouts}} {
		t0 := time.Now()
		e0 := k.evals
		w.f()
		c.AddExtra("child_seconds:"+w.name, time.Since(t0).Seconds())
		c.AddExtra("evaluations:"+w.name, float64(k.evals-e0))
	}
	k.flushKinds()
}

// ---- evaluation of one input

func (k *ck) primaryGuard(detail interface{}) func(a *analysis) guardFn {
	return func(a *analysis) guardFn {
		return func(f func()) bool { return k.c.Guard("panic", detail, f) }
	}
}

// eval runs one input through both parsers and reports. origin names the
// workload (for the evidence); it returns the analysis for callers that
// compare further (third opinion).
func (k *ck) eval(src []byte, isValue bool, origin string) *analysis {
	c := k.c
	detail := map[string]interface{}{"input": quoteInput(src), "origin": origin, "value": isValue}
	a := analyse(src, isValue, k.primaryGuard(detail))
	c.Eval(1)
	k.evals++
	// non-triviality
	if a.libOK || a.refOK() || (a.refErr != nil && a.refErr.TokIndex >= 2) {
		tag := "D:"
		if isValue {
			tag = "V:"
		}
		c.Nontrivial(core.HashString(tag + string(src)))
	}
	switch {
	case a.refOK() && a.libOK:
		c.Feature("both-accept")
		k.kindCoverage(a)
	case !a.refOK() && !a.libOK:
		c.Feature("both-reject")
	}
	if a.refErr != nil && a.refErr.Lexical {
		c.Feature("ref-lexical-error")
	}
	// source immutability: always
	if a.modified {
		if isEscapeRewrite(src, a.after) {
			k.known(sigBlockEsc, "parsing rewrote the source: the backslash of \\\"\"\" inside a block string became a quote", detail, map[string]interface{}{"after": quoteInput(a.after)})
		} else {
			c.Violation(sigModified, "parsing modified the source bytes", merge(detail, map[string]interface{}{"after": quoteInput(a.after)}))
		}
	}
	if a.panicked {
		return a // reported by Guard
	}
	if und, class := syntax.Undefined(src); und {
		c.DontCare(class)
		return a
	}
	if len(a.mism) == 0 {
		return a
	}
	v := explain(a, 0)
	for _, d := range v.dontCare {
		c.DontCare(d)
	}
	for _, s := range v.sigs {
		k.known(s, "disagreement explained by the known class "+s+": "+a.mism[0].msg, detail, map[string]interface{}{"first": a.mism[0].msg, "lib_error": a.libErr})
	}
	if len(v.residual) > 0 {
		m := v.residual[0]
		var all []string
		for i, r := range v.residual {
			if i >= 8 {
				all = append(all, fmt.Sprintf("... %d more", len(v.residual)-8))
				break
			}
			all = append(all, r.sig+": "+r.msg)
		}
		c.Violation(m.sig, m.msg, merge(detail, map[string]interface{}{"mismatches": all, "lib_error": a.libErr, "in_d6_class": inD6Class(src), "also_known": v.sigs}))
	}
	return a
}

// kindCoverage counts the node kinds of the accepted trees (evidence:
// which productions the accepted inputs exercised).
func (k *ck) kindCoverage(a *analysis) {
	var root nast.Node
	if a.isValue {
		root = a.refVal
	} else if a.refDoc != nil {
		root = a.refDoc
	}
	if root == nil {
		return
	}
	if k.kinds == nil {
		k.kinds = map[string]int64{}
	}
	var walk func(n nast.Node)
	walk = func(n nast.Node) {
		k.kinds[n.Kind()]++
		if sv, ok := n.(*nast.StringValue); ok && sv.Block {
			k.kinds["StringValue(block)"]++
		}
		for _, ch := range nast.Children(n) {
			walk(ch)
		}
	}
	walk(root)
}

func (k *ck) flushKinds() {
	names := make([]string, 0, len(k.kinds))
	for n := range k.kinds {
		names = append(names, n)
	}
	sort.Strings(names)
	for _, n := range names {
		k.c.FeatureN("accepted-node:"+n, k.kinds[n])
	}
}

func merge(a, b map[string]interface{}) map[string]interface{} {
	out := map[string]interface{}{}
	for _, m := range []map[string]interface{}{a, b} {
		for _, key := range sortedKeys(m) {
			out[key] = m[key]
		}
	}
	return out
}

func sortedKeys(m map[string]interface{}) []string {
	ks := make([]string, 0, len(m))
	for key := range m {
		ks = append(ks, key)
	}
	// insertion sort: tiny maps
	for i := 1; i < len(ks); i++ {
		for j := i; j > 0 && ks[j] < ks[j-1]; j-- {
			ks[j], ks[j-1] = ks[j-1], ks[j]
		}
	}
	return ks
}

// known reports a hit of a known defect class (capped per child) and counts it.
func (k *ck) known(sig, msg string, detail, extra map[string]interface{}) {
	k.c.Feature("hit:" + sig)
	if k.reported[sig] >= perClassCap {
		return
	}
	k.reported[sig]++
	k.c.Violation(sig, msg, merge(detail, extra))
	k.c.Sample(sig, detail["input"])
}

// ---- workload (a): exhaustive token sequences

const tokChunk = 4096

func (k *ck) tokenSequences() {
	c := k.c
	maxLen := c.Scale(4, 5)
	nb, b := uint64(c.NBatches), uint64(c.Batch)
	for length := 1; length <= maxLen; length++ {
		total := bytegen.TokenSeqCount(length)
		lo, hi := total*b/nb, total*(b+1)/nb
		for start := lo; start < hi; {
			end := (start/tokChunk + 1) * tokChunk
			if end > hi {
				end = hi
			}
			id := fmt.Sprintf("tok/%d/%d", length, start/tokChunk)
			// length 5 (thorough only) is sampled: a seed-dependent quarter of
			// the chunks; lengths 1..4 are always complete
			if length == 5 && os.Getenv("VERIF_C03_FULL5") == "" && core.NewRNG(c.Seed).Derive(core.HashString("tok5"), start/tokChunk).Intn(4) != 0 {
				start = end
				continue
			}
			if c.Begin(id) {
				for i := start; i < end; i++ {
					s := bytegen.TokenSeq(i, length)
					k.eval([]byte(s), false, id)
					if length <= 3 {
						k.eval([]byte(s), true, id)
					}
				}
				c.FeatureN(fmt.Sprintf("tokseq-len%d", length), int64(end-start))
			}
			start = end
		}
	}
}

// ---- workload (d): lexical corner list

func (k *ck) corners() {
	c := k.c
	n := bytegen.NumCornerCases()
	for i := c.Batch; i < n; i += c.NBatches {
		id := fmt.Sprintf("corner/%d", i)
		if !c.Begin(id) {
			continue
		}
		cor, ctx, text := bytegen.CornerCase(i)
		k.eval([]byte(text), ctx.Value, id)
		c.Feature("corner:" + cor.Group)
	}
	docs := bytegen.DocCorners()
	for i := c.Batch; i < len(docs); i += c.NBatches {
		id := fmt.Sprintf("doccorner/%d", i)
		if !c.Begin(id) {
			continue
		}
		k.eval([]byte(docs[i]), false, id)
		c.Feature("corner:document")
	}
}

// ---- workload (b): grammar-generated documents (gramdoc)

// gramdocCall runs f; it reports false when gramdoc is still a stub.
func (k *ck) gramdocCall(f func()) (ok bool) {
	defer func() {
		if r := recover(); r != nil {
			ok = false
			msg := fmt.Sprint(r)
			if strings.Contains(msg, "not implemented") {
				k.c.DontCare("gramdoc-unavailable")
				return
			}
			k.c.Violation("harness:gramdoc-panic", "the document generator panicked: "+msg, nil)
		}
	}()
	f()
	return true
}

// genDoc produces the index-th generated document in the given layout
// (0 = compact, 1.. = random layouts) together with the generator's tree.
func (k *ck) genDoc(index uint64, layout int) (text string, tree *nast.Document, ok bool) {
	ok = k.gramdocCall(func() {
		r := k.c.RNG(core.HashString("gramdoc"), index)
		opts := gramdoc.Options{RichValues: r.Chance(60), MaxDepth: r.Range(2, 5), MaxWidth: r.Range(1, 5), MaxDefs: r.Range(1, 5)}
		switch r.Intn(3) {
		case 0:
			opts.Executable = true
		case 1:
			opts.TypeSystem = true
		default:
			opts.Executable, opts.TypeSystem = true, true
		}
		tree = gramdoc.Gen(r, opts)
		var lay *gramdoc.Layout
		if layout == 0 {
			lay = gramdoc.Compact()
		} else {
			lay = gramdoc.RandomLayout(k.c.RNG(core.HashString("gramdoc-layout"), index, uint64(layout)))
		}
		text = gramdoc.Render(tree, lay)
	})
	if tree == nil {
		ok = false
	}
	return
}

func (k *ck) grammarDocs() {
	c := k.c
	n := c.Scale(400, 8000)
	for i := 0; i < n; i++ {
		for layout := 0; layout < 2; layout++ {
			id := fmt.Sprintf("gd/%d/%d", i, layout)
			if !c.Begin(id) {
				continue
			}
			text, tree, ok := k.genDoc(uint64(i), layout)
			if !ok {
				if i == 0 && layout == 0 {
					return // stub: nothing will work in this run
				}
				continue
			}
			c.Feature(fmt.Sprintf("gramdoc-layout%d", layout))
			a := k.eval([]byte(text), false, id)
			// third opinion: the generator's own tree against the reference parse
			if a.refErr != nil {
				c.Violation("harness:ref-rejects-generated", fmt.Sprintf("the reference rejects a generated document at byte %d: %s", a.refErr.Pos, a.refErr.Msg), map[string]interface{}{"input": quoteInput([]byte(text))})
				continue
			}
			if d := diffNast(tree, a.refDoc, "", len(text)); d != "" {
				c.Violation("harness:ref-vs-generator", "reference parse and generator tree differ: "+d, map[string]interface{}{"input": quoteInput([]byte(text))})
			}
		}
	}
	// values
	nv := c.Scale(300, 4000)
	for i := 0; i < nv; i++ {
		id := fmt.Sprintf("gv/%d", i)
		if !c.Begin(id) {
			continue
		}
		var text string
		var tree nast.Node
		ok := k.gramdocCall(func() {
			r := c.RNG(core.HashString("gramdoc-value"), uint64(i))
			tree = gramdoc.GenValue(r, r.Range(0, 4), r.Chance(30))
			lay := gramdoc.Compact()
			if r.Chance(60) {
				lay = gramdoc.RandomLayout(r)
			}
			text = gramdoc.RenderValue(tree, lay)
		})
		if !ok || tree == nil {
			continue
		}
		c.Feature("gramdoc-value")
		a := k.eval([]byte(text), true, id)
		if a.refErr != nil {
			c.Violation("harness:ref-rejects-generated", "the reference rejects a generated value: "+a.refErr.Msg, map[string]interface{}{"input": quoteInput([]byte(text))})
		} else if d := diffNast(tree, a.refVal, "", len(text)); d != "" {
			c.Violation("harness:ref-vs-generator", "reference parse and generator tree differ (value): "+d, map[string]interface{}{"input": quoteInput([]byte(text))})
		}
	}
}

// ---- bases for mutation and layout

// base returns a valid text chosen by r: a seed document, a kitchen-sink
// file, or a generated document.
func (k *ck) base(r *core.RNG) (string, string) {
	seeds := bytegen.SeedDocs()
	switch p := r.Intn(100); {
	case p < 35:
		return seeds[r.Intn(len(seeds))], "seed"
	case p < 50 && len(k.kitchen) > 0:
		return k.kitchen[r.Intn(len(k.kitchen))], "kitchen-sink"
	case p < 60 && len(k.kitchen) > 0:
		// a slice of definitions of a kitchen-sink file keeps cases small
		return kitchenSlice(r, k.kitchen[r.Intn(len(k.kitchen))]), "kitchen-sink-part"
	default:
		text, _, ok := k.genDoc(uint64(r.Intn(1<<20)), r.Intn(2))
		if ok {
			return text, "gramdoc"
		}
		return seeds[r.Intn(len(seeds))], "seed"
	}
}

// kitchenSlice cuts a run of top-level definitions out of a valid document.
func kitchenSlice(r *core.RNG, text string) string {
	doc, err := syntax.Parse([]byte(text))
	if err != nil || len(doc.Defs) == 0 {
		return text
	}
	i := r.Intn(len(doc.Defs))
	j := i + r.Intn(3)
	if j >= len(doc.Defs) {
		j = len(doc.Defs) - 1
	}
	return text[doc.Defs[i].Pos().Start:doc.Defs[j].Pos().End]
}

// ---- workload (c): mutations

func (k *ck) mutations() {
	c := k.c
	n := c.Scale(12000, 100000)
	for i := 0; i < n; i++ {
		id := fmt.Sprintf("mut/%d", i)
		if !c.Begin(id) {
			continue
		}
		r := c.RNG(core.HashString("mut"), uint64(i))
		text, origin := k.base(r)
		if r.Chance(25) {
			if t, ok := bytegen.Relayout(r, text, bytegen.LayoutOptions{MultiByte: r.Chance(30), Tight: r.Chance(30)}); ok {
				text = t
			}
		}
		steps := 1
		if r.Chance(30) {
			steps += r.Intn(3)
		}
		var op string
		for s := 0; s < steps; s++ {
			text, op = bytegen.Mutate(r, text)
			c.Feature("mut:" + op)
		}
		c.Feature("mut-base:" + origin)
		k.eval([]byte(text), false, id)
	}
}

// ---- workload (e): layouts with multi-byte text

func (k *ck) layouts() {
	c := k.c
	n := c.Scale(2000, 20000)
	for i := 0; i < n; i++ {
		id := fmt.Sprintf("lay/%d", i)
		if !c.Begin(id) {
			continue
		}
		r := c.RNG(core.HashString("lay"), uint64(i))
		text, origin := k.base(r)
		o := bytegen.LayoutOptions{MultiByte: r.Chance(50), Tight: r.Chance(40), Strings: r.Chance(50)}
		t, ok := bytegen.Relayout(r, text, o)
		if !ok {
			c.Feature("layout-base-does-not-lex")
			continue
		}
		if o.MultiByte {
			c.Feature("layout-multibyte")
		} else {
			c.Feature("layout-ascii")
		}
		c.Feature("layout-base:" + origin)
		a := k.eval([]byte(t), false, id)
		if a.refErr != nil {
			// the token sequence of a valid text was kept: the reference must accept
			c.Violation("harness:ref-rejects-relayout", fmt.Sprintf("the reference rejects a re-laid-out valid document at byte %d: %s", a.refErr.Pos, a.refErr.Msg), map[string]interface{}{"input": quoteInput([]byte(t))})
		}
	}
}
