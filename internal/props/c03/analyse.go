package c03

import (
	"bytes"
	"fmt"
	"runtime/debug"
	"strconv"
	"strings"

	"github.com/graphql-go/graphql/language/ast"
	"github.com/graphql-go/graphql/language/parser"
	"github.com/graphql-go/graphql/language/source"

	"verif/internal/adapt"
	"verif/internal/nast"
	"verif/internal/ref/syntax"
)

// Generic signatures (an unexplained disagreement).
const (
	sigLibOnly  = "accept:lib-only" // the library accepts what the grammar rejects
	sigRefOnly  = "accept:ref-only" // the library rejects what the grammar derives
	sigSpan     = "span"
	sigModified = "source-modified"
)

// Signatures of known defect classes; each is decided by an input predicate
// plus a relaxation that mirrors the one defective mechanism (README.md).
const (
	sigD6         = "relax:name-after-multibyte-ignored-run"
	sigEmptyDoc   = "defect:empty-document-accepted"
	sigStrKeyword = "defect:string-token-taken-as-keyword"
	sigBlockInd   = "defect:blockstring-indent-removal"
	sigBlockEsc   = "defect:blockstring-escape-rewrites-source"
	sigValueTrail = "defect:parsevalue-ignores-trailing-tokens"
)

// mismatch is one generic disagreement between the library and the reference.
type mismatch struct {
	sig  string
	msg  string
	diff *adapt.Diff
}

// analysis is everything observed for one input.
type analysis struct {
	isValue  bool
	src      []byte
	refDoc   *nast.Document
	refVal   nast.Node
	refEnd   int // ParseValuePrefix: end of the complete value prefix
	refErr   *syntax.Error
	libOK    bool
	libErr   string
	libDefs  int
	panicked bool
	panicMsg string
	modified bool
	after    []byte
	mism     []mismatch
}

func (a *analysis) refOK() bool { return a.refErr == nil }

// guardFn runs f and reports whether it panicked.
type guardFn func(f func()) bool

func localGuard(a *analysis) guardFn {
	return func(f func()) (panicked bool) {
		defer func() {
			if r := recover(); r != nil {
				panicked = true
				a.panicMsg = fmt.Sprint(r) + "\n" + string(debug.Stack())
			}
		}()
		f()
		return false
	}
}

// analyse runs the reference and the library on src and lists the generic
// mismatches. It decides nothing about classes.
func analyse(src []byte, isValue bool, guard func(a *analysis) guardFn) *analysis {
	a := &analysis{isValue: isValue, src: src}
	if isValue {
		a.refVal, a.refEnd, a.refErr = syntax.ParseValuePrefix(src)
	} else {
		a.refDoc, a.refErr = syntax.Parse(src)
	}
	body := append([]byte(nil), src...)
	var libDoc *ast.Document
	var libVal ast.Value
	var err error
	a.panicked = guard(a)(func() {
		s := &source.Source{Body: body, Name: "x"}
		if isValue {
			libVal, err = parser.ParseValue(parser.ParseParams{Source: s})
		} else {
			libDoc, err = parser.Parse(parser.ParseParams{Source: s})
		}
	})
	if !bytes.Equal(body, src) {
		a.modified = true
		a.after = body
	}
	if a.panicked {
		return a
	}
	if err != nil {
		a.libErr = firstLine(err.Error())
	} else {
		a.libOK = true
		if libDoc != nil {
			a.libDefs = len(libDoc.Definitions)
		}
	}
	switch {
	case a.libOK && !a.refOK():
		a.mism = append(a.mism, mismatch{sig: sigLibOnly, msg: fmt.Sprintf("library accepts, grammar rejects at byte %d (token %d): %s", a.refErr.Pos, a.refErr.TokIndex, a.refErr.Msg)})
	case !a.libOK && a.refOK():
		a.mism = append(a.mism, mismatch{sig: sigRefOnly, msg: "grammar derives the text, library rejects: " + a.libErr})
	case a.libOK && a.refOK():
		var diffs []adapt.Diff
		if isValue {
			diffs = adapt.CompareValue(libVal, a.refVal, src)
		} else {
			if libDoc == nil {
				a.mism = append(a.mism, mismatch{sig: "ast:kind", msg: "library returned a nil document without error"})
				break
			}
			diffs = adapt.CompareDocument(libDoc, a.refDoc, src)
		}
		for i := range diffs {
			d := &diffs[i]
			sig := "ast:" + d.What
			if d.What == adapt.DSpan {
				sig = sigSpan
			}
			a.mism = append(a.mism, mismatch{sig: sig, msg: d.String(), diff: d})
		}
	}
	return a
}

func firstLine(s string) string {
	if i := strings.IndexByte(s, '\n'); i >= 0 {
		return s[:i]
	}
	return s
}

// ---- the D6 class: a Name token whose preceding ignored run contains a
// multi-byte character

// gaps calls f for every ignored run of src: between tokens, before the
// first and after the last, and before a malformed lexeme.
func gaps(src []byte, f func(start, end int)) {
	toks, lerr := syntax.Tokens(src)
	prev := 0
	for _, t := range toks {
		f(prev, t.Start)
		prev = t.End
	}
	if lerr != nil && lerr.TokStart >= prev {
		f(prev, lerr.TokStart)
	}
}

func hasHighByte(b []byte) bool {
	for _, c := range b {
		if c >= 0x80 {
			return true
		}
	}
	return false
}

// inD6Class: the reference token stream contains a Name token (keywords
// included) whose immediately preceding ignored run contains a byte >= 0x80.
func inD6Class(src []byte) bool {
	if !hasHighByte(src) {
		return false
	}
	toks, _ := syntax.Tokens(src)
	prev := 0
	for _, t := range toks {
		if t.Kind == syntax.KName && hasHighByte(src[prev:t.Start]) {
			return true
		}
		prev = t.End
	}
	return false
}

// neutraliseD6 rewrites every ignored run: a multi-byte character inside a
// comment becomes the ASCII character x, a BOM outside comments is removed.
// Tokens are untouched.
func neutraliseD6(src []byte) []byte {
	out := make([]byte, 0, len(src))
	last := 0
	gaps(src, func(start, end int) {
		out = append(out, src[last:start]...)
		inComment := false
		for i := start; i < end; {
			b := src[i]
			switch {
			case b == '#':
				inComment = true
			case b == '\n' || b == '\r':
				inComment = false
			}
			if b < 0x80 {
				out = append(out, b)
				i++
				continue
			}
			w := 1
			for i+w < end && src[i+w]&0xC0 == 0x80 {
				w++
			}
			if inComment {
				out = append(out, 'x')
			}
			// outside comments the only multi-byte ignored character is the BOM: dropped
			i += w
		}
		last = end
	})
	out = append(out, src[last:]...)
	return out
}

// ---- string tokens spelled like the keywords `on` / `implements`

// neutraliseStrKeyword replaces a String / BlockString token whose decoded
// value is "on" (directly after `...`) or "implements" (directly after a
// Name) by the bare name. It returns nil when the text has no such token.
func neutraliseStrKeyword(src []byte) []byte {
	if !bytes.Contains(src, []byte(`on`)) && !bytes.Contains(src, []byte(`implements`)) {
		return nil
	}
	toks, _ := syntax.Tokens(src)
	var out []byte
	last := 0
	for i, t := range toks {
		if i == 0 || (t.Kind != syntax.KString && t.Kind != syntax.KBlockString) {
			continue
		}
		p := toks[i-1]
		if (t.Value == "on" && p.Kind == "...") || (t.Value == "implements" && p.Kind == syntax.KName) {
			out = append(out, src[last:t.Start]...)
			out = append(out, ' ')
			out = append(out, t.Value...)
			out = append(out, ' ')
			last = t.End
		}
	}
	if last == 0 {
		return nil
	}
	return append(out, src[last:]...)
}

// ---- block strings

// libBlockStringValue mirrors the library's defective indentation removal:
// the common indentation is cut from EVERY line including the first (as raw
// bytes, whether they are white space or not), and a line shorter than the
// common indentation is left as it is.
func libBlockStringValue(raw string) string {
	lines := syntax.SplitLines(raw)
	ws := func(s string) int {
		n := 0
		for n < len(s) && (s[n] == ' ' || s[n] == '\t') {
			n++
		}
		return n
	}
	common := -1
	for _, ln := range lines[1:] {
		ind := ws(ln)
		if ind < len(ln) && (common < 0 || ind < common) {
			common = ind
		}
	}
	if common > 0 {
		for i, ln := range lines {
			if common > len(ln) {
				continue
			}
			lines[i] = ln[common:]
		}
	}
	for len(lines) > 0 && ws(lines[0]) == len(lines[0]) {
		lines = lines[1:]
	}
	for len(lines) > 0 && ws(lines[len(lines)-1]) == len(lines[len(lines)-1]) {
		lines = lines[:len(lines)-1]
	}
	return strings.Join(lines, "\n")
}

// blockRaw is the raw value of the block string literal src[start:end]
// (delimiters removed, \""" replaced).
func blockRaw(lit []byte) (string, bool) {
	if len(lit) < 6 || !bytes.HasPrefix(lit, []byte(`"""`)) || !bytes.HasSuffix(lit, []byte(`"""`)) {
		return "", false
	}
	return strings.ReplaceAll(string(lit[3:len(lit)-3]), `\"""`, `"""`), true
}

// isBlockIndentDiff: a value difference on a block string whose library value
// is exactly what the defective indentation removal produces.
func isBlockIndentDiff(src []byte, d *adapt.Diff) bool {
	if d == nil || d.What != adapt.DValue {
		return false
	}
	sv, ok := d.Node.(*nast.StringValue)
	if !ok || sv == nil || !sv.Block || sv.Start < 0 || sv.End > len(src) {
		return false
	}
	raw, ok := blockRaw(src[sv.Start:sv.End])
	if !ok {
		return false
	}
	return d.LibRaw == libBlockStringValue(raw) && d.RefRaw == syntax.BlockStringValue(raw)
}

// isSurrogateDiff: a value difference on a quoted string that contains a
// \uD800-\uDFFF escape (don't-care: the edition does not define its value).
func isSurrogateDiff(src []byte, d *adapt.Diff) bool {
	if d == nil || d.What != adapt.DValue {
		return false
	}
	sv, ok := d.Node.(*nast.StringValue)
	if !ok || sv == nil || sv.Block || sv.Start < 0 || sv.End > len(src) {
		return false
	}
	return syntax.HasSurrogateEscape(src[sv.Start:sv.End])
}

// isEscapeRewrite: the source was modified exactly the way the library's
// block-string lexer does it: the backslash of a \""" became a quote.
func isEscapeRewrite(src, after []byte) bool {
	if len(src) != len(after) {
		return false
	}
	n := 0
	for i := range src {
		if src[i] == after[i] {
			continue
		}
		if src[i] != '\\' || after[i] != '"' || i+3 >= len(src) || src[i+1] != '"' || src[i+2] != '"' || src[i+3] != '"' {
			return false
		}
		n++
	}
	return n > 0
}

func onlyEOF(src []byte) bool {
	toks, err := syntax.Tokens(src)
	return err == nil && len(toks) == 1
}

// ---- classification

// verdict of one input after classification.
type verdict struct {
	sigs     []string   // known classes that explain (part of) the disagreement
	residual []mismatch // unexplained mismatches (generic signatures)
	dontCare []string
}

// explain attributes the mismatches of a to known defect classes. A class is
// credited only if the input lies in the class AND the disagreement disappears
// under the class's relaxation (neutralised input re-analysed, or the
// mirrored mechanism reproducing the library's value exactly); whatever is
// left is residual and keeps its generic signature.
func explain(a *analysis, depth int) verdict {
	var v verdict
	src := a.src
	var rest []mismatch
	seenInd := false
	for _, m := range a.mism {
		switch {
		case isSurrogateDiff(src, m.diff):
			v.dontCare = append(v.dontCare, "surrogate-escape-value")
		case isBlockIndentDiff(src, m.diff):
			if !seenInd {
				v.sigs = append(v.sigs, sigBlockInd)
				seenInd = true
			}
		default:
			rest = append(rest, m)
		}
	}
	if len(rest) == 0 {
		return v
	}
	only := func(sig string) bool {
		for _, m := range rest {
			if m.sig != sig {
				return false
			}
		}
		return true
	}
	if !a.isValue && only(sigLibOnly) && a.libDefs == 0 && onlyEOF(src) {
		v.sigs = append(v.sigs, sigEmptyDoc)
		return v
	}
	if depth < 4 {
		try := func(sig string, n []byte, isValue bool) bool {
			if n == nil || bytes.Equal(n, src) {
				return false
			}
			a2 := analyse(n, isValue, localGuard)
			if a2.panicked {
				return false
			}
			v2 := explain(a2, depth+1)
			if len(v2.residual) != 0 {
				return false
			}
			v.sigs = append(v.sigs, sig)
			v.sigs = append(v.sigs, v2.sigs...)
			v.dontCare = append(v.dontCare, v2.dontCare...)
			return true
		}
		if a.isValue && only(sigLibOnly) && a.refErr != nil && !a.refErr.Lexical && a.refEnd > 0 {
			if try(sigValueTrail, src[:a.refEnd], true) {
				return v
			}
		}
		if only(sigLibOnly) {
			if try(sigStrKeyword, neutraliseStrKeyword(src), a.isValue) {
				return v
			}
		}
		// D6 as it stands after the repair of its worst consequence (lexing
		// resumed inside the name): only the reported POSITIONS are off, so
		// only span mismatches are attributed to it
		if inD6Class(src) && only(sigSpan) {
			if try(sigD6, neutraliseD6(src), a.isValue) {
				return v
			}
		}
	}
	v.residual = rest
	return v
}

func quoteInput(b []byte) string {
	if len(b) > 3000 {
		return strconv.Quote(string(b[:1500])) + " ... " + strconv.Quote(string(b[len(b)-1500:]))
	}
	return strconv.Quote(string(b))
}
