package c03

import (
	"reflect"
	"sort"
	"testing"
)

func classify(src string, isValue bool) (sigs []string, residual []string) {
	a := analyse([]byte(src), isValue, localGuard)
	v := explain(a, 0)
	for _, m := range v.residual {
		residual = append(residual, m.sig)
	}
	sigs = append(sigs, v.sigs...)
	sort.Strings(sigs)
	return
}

// On the repaired tree: the witnesses of the repaired defect classes agree
// with the reference; the D6 witnesses disagree in node spans only and are
// attributed to D6; inputs outside every class agree.
func TestClassification(t *testing.T) {
	q3 := `"""`
	cases := []struct {
		src   string
		value bool
		sigs  []string
	}{
		{`{ a b }`, false, nil},
		{"{ a #e\n bc }", false, nil},
		{"{ a #é\n bc }", false, []string{sigD6}},
		{"{ a #é\n b }", false, []string{sigD6}},
		{"{ #éééé\n b }", false, []string{sigD6}},
		{"\ufeffquery { a }", false, []string{sigD6}},
		{"# é\nquery Q { a }", false, []string{sigD6}},
		{"\ufeff{ a }", false, nil},
		{"{ a(x: #é\n true) }", false, []string{sigD6}},
		{"{ a(x: #é\n 12, s: \"é\") { b } }", false, nil},
		// repaired classes: both sides agree now
		{``, false, nil},
		{"# é\n", false, nil},
		{`{ ... "on" T { a } }`, false, nil},
		{`type A ` + q3 + `implements` + q3 + ` B { f: Int }`, false, nil},
		{`{ a(s: ` + q3 + "  x\n  y" + q3 + `) }`, false, nil},
		{`{ a(s: ` + q3 + "abcdef\n    x" + q3 + `) }`, false, nil},
		{`{ a(s: ` + q3 + "\n  x\n \n  y" + q3 + `) }`, false, nil},
		{`{ a(s: ` + q3 + "\n  x\n    y\n" + q3 + `) }`, false, nil},
		{"{ a #é\n b(s: " + q3 + "  x\n  y" + q3 + ") }", false, []string{sigD6}},
		{`1 2`, true, nil},
		{`[1] }`, true, nil},
		{`$a $b`, true, nil},
		{`1`, true, nil},
	}
	for _, c := range cases {
		sigs, residual := classify(c.src, c.value)
		if len(residual) != 0 {
			t.Errorf("%q: residual %v (sigs %v)", c.src, residual, sigs)
		}
		want := append([]string(nil), c.sigs...)
		sort.Strings(want)
		// a D6-class input may also agree completely (not every node span is compared)
		if !reflect.DeepEqual(sigs, want) && len(sigs) != 0 {
			t.Errorf("%q: sigs %v want %v", c.src, sigs, want)
		}
	}
}

func TestNeutralise(t *testing.T) {
	got := string(neutraliseD6([]byte("\ufeff{ a #é€\n \ufeff b(s: \"é\") # 😀")))
	want := "{ a #xx\n  b(s: \"é\") # x"
	if got != want {
		t.Errorf("neutraliseD6: %q want %q", got, want)
	}
	if !inD6Class([]byte("{ #é\n a }")) || inD6Class([]byte("{ a(s: \"é\") b #é\n }")) || inD6Class([]byte("{ a #é\n { b } }")) {
		t.Errorf("inD6Class")
	}
	if n := neutraliseStrKeyword([]byte(`{ ... "on" T { a } }`)); string(n) != `{ ...  on  T { a } }` {
		t.Errorf("neutraliseStrKeyword %q", n)
	}
	if neutraliseStrKeyword([]byte(`{ a(x: "on") }`)) != nil {
		t.Errorf("string value \"on\" is not in the class")
	}
	if !isEscapeRewrite([]byte(`"""a\"""b"""`), []byte(`"""a""""b"""`)) || isEscapeRewrite([]byte(`"""a\"""b"""`), []byte(`"""a\"""c"""`)) || isEscapeRewrite([]byte(`abc`), []byte(`abc`)) {
		t.Errorf("isEscapeRewrite")
	}
}

// A relaxation must not swallow a second, unrelated disagreement: a fake
// analysis with an extra mismatch keeps it as residual.
func TestResidualSurvives(t *testing.T) {
	a := analyse([]byte("\ufeffquery { a }"), false, localGuard)
	if len(a.mism) == 0 {
		t.Fatal("expected the D6 witness to disagree")
	}
	// 1. the genuine analysis is fully explained
	if v := explain(a, 0); len(v.residual) != 0 || !reflect.DeepEqual(v.sigs, []string{sigD6}) {
		t.Fatalf("verdict %+v", v)
	}
	// 2. an input in the D6 class whose neutralised form still disagrees
	//    (empty selection is not involved; use the string-keyword defect with
	//    a non-keyword spelling, which the library rejects like the grammar)
	b := analyse([]byte("{ a #é\n bc } }"), false, localGuard)
	if v := explain(b, 0); len(b.mism) != 0 && len(v.residual) == 0 && len(v.sigs) == 0 {
		t.Fatalf("a rejected-by-both input must not produce a verdict: %+v", v)
	}
	// 3. the D6 relaxation excuses spans only: a fake shape mismatch added to
	//    the genuine analysis stays residual
	a.mism = append(a.mism, mismatch{sig: "ast:count", msg: "fake"})
	if v := explain(a, 0); len(v.residual) == 0 {
		t.Fatalf("a shape mismatch in the D6 class must stay residual: %+v", v)
	}
	// 4. the source is never modified (repaired: escaped triple quote)
	c := analyse([]byte(`{ a(s: """x\"""y""") }`), false, localGuard)
	if c.modified || len(c.mism) != 0 {
		t.Fatalf("modified=%v mismatches=%v", c.modified, c.mism)
	}
}
