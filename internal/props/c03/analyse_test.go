package c03

import (
	"reflect"
	"sort"
	"strings"
	"testing"
)

func classify(src string, isValue bool) (sigs []string, residual []string) {
	a := analyse([]byte(src), isValue, localGuard)
	v := explain(a, 0)
	for _, m := range v.residual {
		residual = append(residual, m.sig)
	}
	sigs = append(sigs, v.sigs...)
	sort.Strings(sigs)
	return
}

// The witnesses of the known classes are attributed to their class and to
// nothing else; inputs outside every class agree; a disagreement that a class
// does not explain stays residual.
func TestClassification(t *testing.T) {
	q3 := `"""`
	cases := []struct {
		src   string
		value bool
		sigs  []string
	}{
		{`{ a b }`, false, nil},
		{"{ a #e\n bc }", false, nil},
		{"{ a #é\n bc }", false, []string{sigD6}},
		{"{ a #é\n b }", false, []string{sigD6}},
		{"{ #éééé\n b }", false, []string{sigD6}},
		{"\ufeffquery { a }", false, []string{sigD6}},
		{"\ufeff{ a }", false, nil},
		{"{ a(x: #é\n true) }", false, []string{sigD6}},
		{"{ a(x: #é\n 12, s: \"é\") { b } }", false, nil},
		{``, false, []string{sigEmptyDoc}},
		{"# é\n", false, []string{sigEmptyDoc}},
		{`{ ... "on" T { a } }`, false, []string{sigStrKeyword}},
		{`type A ` + q3 + `implements` + q3 + ` B { f: Int }`, false, []string{sigStrKeyword}},
		{`{ a(s: ` + q3 + "  x\n  y" + q3 + `) }`, false, []string{sigBlockInd}},
		{`{ a(s: ` + q3 + "abcdef\n    x" + q3 + `) }`, false, []string{sigBlockInd}},
		{`{ a(s: ` + q3 + "\n  x\n \n  y" + q3 + `) }`, false, []string{sigBlockInd}},
		{`{ a(s: ` + q3 + "\n  x\n    y\n" + q3 + `) }`, false, nil},
		{"{ a #é\n b(s: " + q3 + "  x\n  y" + q3 + ") }", false, []string{sigBlockInd, sigD6}},
		{"{ a #é\n ... \"on\" T { b } }", false, nil}, // no Name after the multi-byte run... but "on" is a string: library accepts
		{`1 2`, true, []string{sigValueTrail}},
		{`[1] }`, true, []string{sigValueTrail}},
		{`$a $b`, true, []string{sigValueTrail}},
		{`1`, true, nil},
	}
	for _, c := range cases {
		sigs, residual := classify(c.src, c.value)
		if c.src == "{ a #é\n ... \"on\" T { b } }" {
			// in the string-keyword class only (the run precedes `...`, not a Name)
			c.sigs = []string{sigStrKeyword}
		}
		if len(residual) != 0 {
			t.Errorf("%q: residual %v (sigs %v)", c.src, residual, sigs)
		}
		want := append([]string(nil), c.sigs...)
		sort.Strings(want)
		if !reflect.DeepEqual(sigs, want) && !(len(sigs) == 0 && len(want) == 0) {
			t.Errorf("%q: sigs %v want %v", c.src, sigs, want)
		}
	}
}

func TestNeutralise(t *testing.T) {
	got := string(neutraliseD6([]byte("\ufeff{ a #é€\n \ufeff b(s: \"é\") # 😀")))
	want := "{ a #xx\n  b(s: \"é\") # x"
	if got != want {
		t.Errorf("neutraliseD6: %q want %q", got, want)
	}
	if !inD6Class([]byte("{ #é\n a }")) || inD6Class([]byte("{ a(s: \"é\") b #é\n }")) || inD6Class([]byte("{ a #é\n { b } }")) {
		t.Errorf("inD6Class")
	}
	if n := neutraliseStrKeyword([]byte(`{ ... "on" T { a } }`)); string(n) != `{ ...  on  T { a } }` {
		t.Errorf("neutraliseStrKeyword %q", n)
	}
	if neutraliseStrKeyword([]byte(`{ a(x: "on") }`)) != nil {
		t.Errorf("string value \"on\" is not in the class")
	}
	if !isEscapeRewrite([]byte(`"""a\"""b"""`), []byte(`"""a""""b"""`)) || isEscapeRewrite([]byte(`"""a\"""b"""`), []byte(`"""a\"""c"""`)) || isEscapeRewrite([]byte(`abc`), []byte(`abc`)) {
		t.Errorf("isEscapeRewrite")
	}
}

// A relaxation must not swallow a second, unrelated disagreement: a fake
// analysis with an extra mismatch keeps it as residual.
func TestResidualSurvives(t *testing.T) {
	a := analyse([]byte("{ a #é\n bc }"), false, localGuard)
	if len(a.mism) == 0 {
		t.Fatal("expected the D6 witness to disagree")
	}
	// 1. the genuine analysis is fully explained
	if v := explain(a, 0); len(v.residual) != 0 || !reflect.DeepEqual(v.sigs, []string{sigD6}) {
		t.Fatalf("verdict %+v", v)
	}
	// 2. an input in the D6 class whose neutralised form still disagrees
	//    (empty selection is not involved; use the string-keyword defect with
	//    a non-keyword spelling, which the library rejects like the grammar)
	b := analyse([]byte("{ a #é\n bc } }"), false, localGuard)
	if v := explain(b, 0); len(b.mism) != 0 && len(v.residual) == 0 && len(v.sigs) == 0 {
		t.Fatalf("a rejected-by-both input must not produce a verdict: %+v", v)
	}
	// 3. source modification is recognised only in its exact shape
	c := analyse([]byte(`{ a(s: """x\"""y""") }`), false, localGuard)
	if !c.modified || !isEscapeRewrite(c.src, c.after) {
		t.Fatalf("expected the escape rewrite, got modified=%v %q", c.modified, c.after)
	}
	if !strings.Contains(string(c.after), `x""""y`) {
		t.Fatalf("after = %q", c.after)
	}
}
