package c03

import (
	"fmt"
	"strconv"

	"verif/internal/nast"
)

// payload is the scalar content of a neutral node.
func payload(n nast.Node) string {
	switch v := n.(type) {
	case *nast.Name:
		return v.Value
	case *nast.Operation:
		return v.Op + "/" + strconv.FormatBool(v.Shorthand)
	case *nast.IntValue:
		return v.Raw
	case *nast.FloatValue:
		return v.Raw
	case *nast.StringValue:
		// Block is presentation: a generator may ask for a block string that
		// the renderer had to write as a quoted string
		return v.Value
	case *nast.BooleanValue:
		return strconv.FormatBool(v.Value)
	case *nast.EnumValue:
		return v.Value
	case *nast.OpTypeDef:
		return v.Op
	}
	return ""
}

// diffNast compares a generator tree (spans filled in by its renderer) with
// the reference parse of the rendered text and returns the first difference
// ("" when equal). The Document span is compared leniently (it may extend
// over ignored text up to the ends of the input).
func diffNast(gen, ref nast.Node, path string, srcLen int) string {
	if gen.Kind() != ref.Kind() {
		return fmt.Sprintf("%s: kind generator %s, reference %s", path, gen.Kind(), ref.Kind())
	}
	if payload(gen) != payload(ref) {
		return fmt.Sprintf("%s (%s): generator %q, reference %q", path, gen.Kind(), payload(gen), payload(ref))
	}
	gs, rs := gen.Pos(), ref.Pos()
	if _, isDoc := gen.(*nast.Document); isDoc {
		if gs.Start < 0 || gs.Start > rs.Start || gs.End < rs.End || gs.End > srcLen {
			return fmt.Sprintf("%s (Document): span generator [%d,%d), reference [%d,%d)", path, gs.Start, gs.End, rs.Start, rs.End)
		}
	} else if *gs != *rs {
		return fmt.Sprintf("%s (%s): span generator [%d,%d), reference [%d,%d)", path, gen.Kind(), gs.Start, gs.End, rs.Start, rs.End)
	}
	gc, rc := nast.Children(gen), nast.Children(ref)
	if len(gc) != len(rc) {
		return fmt.Sprintf("%s (%s): generator has %d children, reference %d", path, gen.Kind(), len(gc), len(rc))
	}
	for i := range gc {
		if d := diffNast(gc[i], rc[i], fmt.Sprintf("%s/%s[%d]", path, gen.Kind(), i), srcLen); d != "" {
			return d
		}
	}
	return ""
}
