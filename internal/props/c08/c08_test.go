package c08

import (
	"strings"
	"testing"

	"github.com/graphql-go/graphql/language/ast"

	"verif/internal/core"
	"verif/internal/gen/gramdoc"
	"verif/internal/nast"
)

func mustParse(t *testing.T, s string) *ast.Document {
	t.Helper()
	d, err, v := parseDoc(s)
	if err != nil || v != nil {
		t.Fatalf("parse %q: %v %v", s, err, v)
	}
	return d
}

// The comparer must see every kind of difference, and only the documented
// tolerances may hide one.
func TestDiffSensitivity(t *testing.T) {
	base := `query Q($a: [Int!] = [1]) @d(x: "s") { a: b(c: {k: [1.5, E, true]}) ...F ... on T { x } } "desc" type T implements A & B @t { "fd" f("ad" a: Int = 1 @x): [T]! } enum E { A B } union U = A | B schema { query: Q } directive @d on FIELD | QUERY extend type T { g: Int }`
	variants := []string{
		`query R($a: [Int!] = [1]) @d(x: "s") { a: b(c: {k: [1.5, E, true]}) ...F ... on T { x } } "desc" type T implements A & B @t { "fd" f("ad" a: Int = 1 @x): [T]! } enum E { A B } union U = A | B schema { query: Q } directive @d on FIELD | QUERY extend type T { g: Int }`,
		strings.Replace(base, "query Q", "mutation Q", 1),
		strings.Replace(base, "[Int!]", "[Int]", 1),
		strings.Replace(base, "[Int!]", "[Int!]!", 1),
		strings.Replace(base, "= [1])", "= [2])", 1),
		strings.Replace(base, "= [1])", ")", 1),
		strings.Replace(base, `"s"`, `"S"`, 1),
		strings.Replace(base, `"s"`, `s`, 1),
		strings.Replace(base, "a: b", "b", 1),
		strings.Replace(base, "1.5, E", "E, 1.5", 1),
		strings.Replace(base, "true", "false", 1),
		strings.Replace(base, "1.5", "1.50", 1),
		strings.Replace(base, "...F", "...G", 1),
		strings.Replace(base, "... on T", "...", 1),
		strings.Replace(base, `"desc"`, `"Desc"`, 1),
		strings.Replace(base, `"desc"`, ``, 1),
		strings.Replace(base, `"fd"`, `" "`, 1),
		strings.Replace(base, `"ad"`, `"da"`, 1),
		strings.Replace(base, "A & B", "B & A", 1),
		strings.Replace(base, "A & B", "A", 1),
		strings.Replace(base, "@t", "", 1),
		strings.Replace(base, "@x", "@x(y: 1)", 1),
		strings.Replace(base, "[T]!", "[T!]", 1),
		strings.Replace(base, "{ A B }", "{ B A }", 1),
		strings.Replace(base, "= A | B", "= B | A", 1),
		strings.Replace(base, "query: Q", "mutation: Q", 1),
		strings.Replace(base, "FIELD | QUERY", "QUERY | FIELD", 1),
		strings.Replace(base, "extend type T { g: Int }", "type T { g: Int }", 1),
		strings.Replace(base, "k:", "j:", 1),
		strings.Replace(base, "(x:", "(y:", 1),
	}
	a := conv(mustParse(t, base))
	if d := diff("$", a, conv(mustParse(t, "  "+strings.ReplaceAll(base, " ", "\n  ")))); d != "" {
		t.Fatalf("layout must not matter: %s", d)
	}
	for _, v := range variants {
		if v == base {
			t.Fatalf("variant equals base")
		}
		if d := diff("$", a, conv(mustParse(t, v))); d == "" {
			t.Errorf("difference not seen: %q", v)
		}
	}
	// tolerances: nil description == empty description; nil slice == empty slice
	if d := diff("$", conv(mustParse(t, `"" scalar S`)), conv(mustParse(t, `scalar S`))); d != "" {
		t.Errorf("nil vs empty description must be tolerated: %s", d)
	}
	if d := diff("$", conv(mustParse(t, `" " scalar S`)), conv(mustParse(t, `scalar S`))); d == "" {
		t.Errorf("blank vs absent description must differ")
	}
	if d := diff("$", conv(mustParse(t, `query { a }`)), conv(mustParse(t, `{ a }`))); d != "" {
		t.Errorf("`query {a}` and `{a}` have the same AST up to nil/empty slices: %s", d)
	}
}

func TestSnapshotSensitivity(t *testing.T) {
	d := mustParse(t, `query Q($a: Int = 1) { a(b: "s") } "desc" scalar S`)
	s0 := snapshot(conv(d))
	op := d.Definitions[0].(*ast.OperationDefinition)
	check := func(what string, mut, undo func()) {
		mut()
		if snapshot(conv(d)) == s0 {
			t.Errorf("snapshot blind to: %s", what)
		}
		undo()
		if snapshot(conv(d)) != s0 {
			t.Fatalf("undo failed: %s", what)
		}
	}
	check("Loc.Start", func() { op.Loc.Start++ }, func() { op.Loc.Start-- })
	check("Loc.End of a leaf", func() { op.Name.Loc.End++ }, func() { op.Name.Loc.End-- })
	check("name value", func() { op.Name.Value = "R" }, func() { op.Name.Value = "Q" })
	check("nil vs empty slice", func() { op.Directives = nil }, func() { op.Directives = []*ast.Directive{} })
	f := op.SelectionSet.Selections[0].(*ast.Field)
	sv := f.Arguments[0].Value
	check("value replaced", func() { f.Arguments[0].Value = &ast.StringValue{Kind: "StringValue", Value: "s"} }, func() { f.Arguments[0].Value = sv })
	check("Kind field", func() { f.Kind = "X" }, func() { f.Kind = "Field" })
	check("source body", func() { d.Loc.Source.Body[0] = 'Q' }, func() { d.Loc.Source.Body[0] = 'q' })
	sd := d.Definitions[1].(*ast.ScalarDefinition)
	desc := sd.Description
	check("description dropped", func() { sd.Description = nil }, func() { sd.Description = desc })
	loc := f.Loc
	check("Loc dropped", func() { f.Loc = nil }, func() { f.Loc = loc })
}

// The description classes: a description outside every class must round-trip
// (this is what makes the classes a complete account of the description
// defects); inside a class the laws are expected to fail on the unrepaired
// printer (logged, not asserted: a repaired printer makes them pass).
func TestDescriptionClasses(t *testing.T) {
	var vals []string
	vals = append(vals, nasty...)
	for i, a := range nasty {
		b := nasty[(i*7+3)%len(nasty)]
		vals = append(vals, a+b, "x"+a+"y", a+"\n"+b, "p\n"+a+"\nq")
	}
	held, failed, wrong := 0, 0, 0
	for _, v := range vals {
		lay := gramdoc.Compact()
		for _, nested := range []bool{false, true} {
			var doc *nast.Document
			dv := &nast.StringValue{Value: v}
			if nested {
				doc = &nast.Document{Defs: []nast.Node{&nast.ObjectDef{Name: &nast.Name{Value: "T"}, Fields: []*nast.FieldDef{{Name: &nast.Name{Value: "f"}, Type: &nast.Named{Name: &nast.Name{Value: "T"}},
					Args: []*nast.InputValueDef{{Desc: dv, Name: &nast.Name{Value: "a"}, Type: &nast.Named{Name: &nast.Name{Value: "T"}}}}}}}}}
			} else {
				doc = &nast.Document{Defs: []nast.Node{&nast.ScalarDef{Desc: dv, Name: &nast.Name{Value: "S"}}}}
			}
			src := gramdoc.Render(doc, lay)
			d := mustParse(t, src)
			verdict := laws(nil, d, nil)
			hz := descHazard(v)
			switch {
			case hz == "" && verdict != nil:
				wrong++
				t.Errorf("description %q (nested=%v) is in no defect class but fails: %s %s", v, nested, verdict.sig, verdict.msg)
			case hz == "":
				held++
			case verdict == nil:
				t.Logf("description %q (class %s, nested=%v): laws hold (printer repaired?)", v, hz, nested)
			default:
				failed++
			}
		}
	}
	t.Logf("descriptions outside the classes that round-trip: %d; inside a class and failing: %d; misclassified: %d", held, failed, wrong)
}

// buildCase is a pure function of the RNG.
func TestDeterministicCases(t *testing.T) {
	for i := uint64(0); i < 200; i++ {
		a := buildCase(core.NewRNG(7).Derive(i))
		b := buildCase(core.NewRNG(7).Derive(i))
		if a.src != b.src || a.canon != b.canon || a.origin != b.origin {
			t.Fatalf("case %d not deterministic", i)
		}
	}
}
