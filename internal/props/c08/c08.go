// Package c08 decides property C08 (print -> parse yields the same AST) by
// pure round-trip laws on the real library; see README.md.
package c08

import (
	"fmt"
	"os"
	"path/filepath"
	"runtime/debug"
	"time"

	"github.com/graphql-go/graphql/language/ast"
	"github.com/graphql-go/graphql/language/parser"

	"verif/internal/core"
	"verif/internal/gen/gramdoc"
	"verif/internal/nast"
)

func init() {
	core.Register(&core.Check{
		ID: "C08", Level: "exploration",
		Technique: "runtime monitor with pure round-trip laws on the real library: for every generated or given document the library parser accepts, " +
			"Print(ast) is a string, parses again, re-parses to a structurally equal AST (own reflection-free comparer, Loc ignored), " +
			"Print(re-parsed) == Print(original), and a deep snapshot (every field incl. Loc) of the AST is unchanged by Print; " +
			"the same laws on sub-nodes handed to Print directly",
		Rule: "cases: grammar-generated documents (gramdoc; executable / type-system / mixed / value-focused; hostile strings, block strings, descriptions; random layouts), " +
			"mutated variants (hostile string swapped in, values nested deeper), a fixed corpus and the repository's kitchen-sink files. " +
			"A case is non-trivial when its AST contains at least one of {string with a character outside printable ASCII or needing an escape, block string, description, " +
			"directive with arguments, list/object value nested to depth>=2, type-system definition}; distinct = FNV-1a of the canonical (compact) text of the case",
		Assumptions: []string{
			"the property quantifies over documents the library parser accepts; rejected texts are counted as don't-care and not judged",
			"structural equality ignores Loc, treats a nil slice as an empty one and a nil description as an empty one (DESIGN.md C08)",
			"sub-nodes are re-parsed inside a minimal wrapper document because the library exports no parser entry point for them (except values)",
		},
		Batches:      func(tier string) int { return batches(tier) },
		Run:          run,
		ChildTimeout: func(tier string) time.Duration { return 20 * time.Minute },
		MinEvals: func(tier string) int {
			if tier == "thorough" {
				return 1000000
			}
			return 20000
		},
	})
}

func batches(tier string) int {
	if tier == "thorough" {
		return 16
	}
	return 8
}

func repoDir() string {
	if d := os.Getenv("VERIF_REPO"); d != "" {
		return d
	}
	return "/repo"
}

func run(c *core.Child) {
	// quick: 8 x 2500 = 2*10^4 documents; thorough: 16 x 62500 = 10^6
	n := c.Scale(2500, 62500)
	debug.SetGCPercent(400) // allocation-heavy library code; the check's verdicts do not depend on it
	if c.Batch == 0 {
		runCorpus(c)
	}
	for i := 0; i < n; i++ {
		id := fmt.Sprintf("g/%d", i)
		if !c.Begin(id) {
			continue
		}
		k := buildCase(c.RNG(uint64(i)))
		checkCase(c, c.RNG(uint64(i), 0x5b), k)
	}
}

// kase is one input document.
type kase struct {
	src      string // text handed to the parser
	canon    string // canonical text (hash of the case)
	origin   string // how it was made
	d6Layout bool   // layout may contain multi-byte ignored runs (library lexer defect D6: mis-lexed, possibly rejected)
}

func runCorpus(c *core.Child) {
	idx := 0
	add := func(origin, src string) {
		id := fmt.Sprintf("k/%d", idx)
		idx++
		if !c.Begin(id) {
			return
		}
		checkCase(c, c.RNG(0xc0, uint64(idx)), &kase{src: src, canon: src, origin: origin})
	}
	for _, f := range []string{"kitchen-sink.graphql", "schema-kitchen-sink.graphql", "schema-all-descriptions.graphql"} {
		b, err := os.ReadFile(filepath.Join(repoDir(), f))
		if err != nil {
			c.DontCare("corpus-file-missing:" + f)
			idx++
			continue
		}
		add("file:"+f, string(b))
	}
	for _, s := range corpus {
		add("corpus", s)
	}
}

// ---------------------------------------------------------------------------
// workload
// ---------------------------------------------------------------------------

func buildCase(r *core.RNG) *kase {
	k := &kase{}
	// small documents mostly (the library printer is quadratic in depth: it
	// converts every edited subtree to maps again at each level), a tail of
	// larger ones
	opts := gramdoc.Options{RichValues: r.Chance(85), MaxDepth: 3, MaxWidth: 3, MaxDefs: r.Range(1, 3)}
	switch {
	case r.Chance(12):
		opts.MaxDepth, opts.MaxWidth, opts.MaxDefs = 4, 4, r.Range(1, 5)
	case r.Chance(5):
		opts.MaxDepth, opts.MaxWidth = r.Range(2, 6), r.Range(2, 6)
	}
	var doc *nast.Document
	switch w := r.Intn(100); {
	case w < 27:
		opts.Executable = true
		k.origin = "gen:executable"
		doc = gramdoc.Gen(r.Derive(1), opts)
	case w < 60:
		opts.TypeSystem = true
		k.origin = "gen:type-system"
		doc = gramdoc.Gen(r.Derive(1), opts)
	case w < 80:
		opts.Executable, opts.TypeSystem = true, true
		k.origin = "gen:mixed"
		doc = gramdoc.Gen(r.Derive(1), opts)
	default:
		k.origin = "gen:value-focused"
		doc = valueDoc(r.Derive(1))
	}
	if r.Chance(30) {
		if mutate(r.Derive(2), doc) {
			k.origin += "+mutated"
		}
	}
	var lay *gramdoc.Layout
	switch w := r.Intn(100); {
	case w < 40:
		lay = gramdoc.Compact()
	case w < 95:
		lay = gramdoc.RandomLayout(r.Derive(3))
		lay.MultiByte, lay.BOM = false, false
	default:
		lay = gramdoc.RandomLayout(r.Derive(3))
		k.d6Layout = lay.MultiByte || lay.BOM
	}
	k.src = gramdoc.Render(doc, lay)
	k.canon = gramdoc.Render(doc, gramdoc.Compact())
	return k
}

// valueDoc: documents whose weight is in the values: every value kind nested
// to depth 4 in arguments, variable defaults, directive arguments, input
// field defaults and argument-definition defaults.
func valueDoc(r *core.RNG) *nast.Document {
	nm := func(s string) *nast.Name { return &nast.Name{Value: s} }
	doc := &nast.Document{}
	n := r.Range(1, 3)
	for i := 0; i < n; i++ {
		depth := r.Range(0, 4)
		if r.Chance(10) {
			depth = r.Range(5, 8)
		}
		switch r.Intn(4) {
		case 0:
			f := &nast.Field{Name: nm("f")}
			na := r.Range(1, 3)
			for j := 0; j < na; j++ {
				f.Args = append(f.Args, &nast.Argument{Name: nm(fmt.Sprintf("a%d", j)), Value: gramdoc.GenValue(r.Derive(uint64(i), uint64(j)), depth, false)})
			}
			doc.Defs = append(doc.Defs, &nast.Operation{Op: "query", Shorthand: true, Sel: &nast.SelectionSet{Items: []nast.Node{f}}})
		case 1:
			op := &nast.Operation{Op: []string{"query", "mutation", "subscription"}[r.Intn(3)], Name: nm("Q")}
			op.Vars = []*nast.VarDef{{Var: &nast.Variable{Name: nm("v")}, Type: &nast.Named{Name: nm("T")}, Default: gramdoc.GenValue(r.Derive(uint64(i), 1), depth, true)}}
			op.Directives = []*nast.Directive{{Name: nm("d"), Args: []*nast.Argument{{Name: nm("x"), Value: gramdoc.GenValue(r.Derive(uint64(i), 2), depth, false)}}}}
			op.Sel = &nast.SelectionSet{Items: []nast.Node{&nast.Field{Name: nm("a")}}}
			doc.Defs = append(doc.Defs, op)
		case 2:
			io := &nast.InputObjectDef{Name: nm("I")}
			nf := r.Range(1, 3)
			for j := 0; j < nf; j++ {
				io.Fields = append(io.Fields, &nast.InputValueDef{Name: nm(fmt.Sprintf("f%d", j)), Type: &nast.Named{Name: nm("T")},
					Default:    gramdoc.GenValue(r.Derive(uint64(i), uint64(j), 3), depth, true),
					Directives: []*nast.Directive{{Name: nm("d"), Args: []*nast.Argument{{Name: nm("x"), Value: gramdoc.GenValue(r.Derive(uint64(i), uint64(j), 4), depth/2, true)}}}}})
			}
			doc.Defs = append(doc.Defs, io)
		default:
			od := &nast.ObjectDef{Name: nm("T")}
			od.Fields = []*nast.FieldDef{{Name: nm("f"), Type: &nast.Named{Name: nm("T")},
				Args: []*nast.InputValueDef{{Name: nm("a"), Type: &nast.List{Of: &nast.Named{Name: nm("T")}}, Default: gramdoc.GenValue(r.Derive(uint64(i), 5), depth, true)}}}}
			doc.Defs = append(doc.Defs, od)
		}
	}
	return doc
}

// nasty strings swapped in by the mutation operator: each aims at one way a
// printer can get a string or description wrong.
var nasty = []string{
	`"`, `\`, `\\`, `"""`, `\"""`, `""""`, `x"`, `x\`, `x\"`, `"x`, " ", "  ", "\t", "\n", "\r", "\r\n", "\n\n", " x", "x ", "  x\n  y", "x\n  y", "  x\n y",
	"x\n", "\nx", "x\n\ny", "x\n \ny", "\tx\n\ty", "a\rb", "\x00", "\x07", "\x0b", "\x1f", "\x7f", "\u0080", "\u009f", "\u2028", "\u2029", "\ufeff", "\ufffd",
	"\U0001F600", "\U0010FFFF", "\u00e9", `\u0041`, `\n`, `\x41`, `\a`, `\/`, "/", "#", "# x\ny", `""`, `a""b`, `a"""b`, `a\"""b`, `"""\`, `\"`,
	"`", "%s%d%v", "{{}}", "$x", "@d", "...", "true", "null", "", "x\ty", "\"\"\"\nx\n\"\"\"", "very long " + "0123456789012345678901234567890123456789012345678901234567890123456789",
}

// mutate applies one or two mutation operators to the neutral tree.
func mutate(r *core.RNG, doc *nast.Document) bool {
	// collect strings and value slots
	var strs []*nast.StringValue
	var slots []*nast.Node
	var walk func(n nast.Node)
	walk = func(n nast.Node) {
		switch v := n.(type) {
		case *nast.StringValue:
			strs = append(strs, v)
		case *nast.Argument:
			slots = append(slots, &v.Value)
		case *nast.ObjectField:
			slots = append(slots, &v.Value)
		case *nast.ListValue:
			for i := range v.Items {
				slots = append(slots, &v.Items[i])
			}
		case *nast.VarDef:
			if v.Default != nil {
				slots = append(slots, &v.Default)
			}
		case *nast.InputValueDef:
			if v.Default != nil {
				slots = append(slots, &v.Default)
			}
		}
		for _, ch := range nast.Children(n) {
			walk(ch)
		}
	}
	walk(doc)
	done := false
	if len(strs) > 0 && r.Chance(75) {
		n := 1 + r.Intn(2)
		for i := 0; i < n; i++ {
			s := strs[r.Intn(len(strs))]
			v := nasty[r.Intn(len(nasty))]
			if r.Chance(25) {
				v += nasty[r.Intn(len(nasty))]
			}
			s.Value = v
			s.Block = gramdoc.BlockRepresentable(v) && r.Bool()
			done = true
		}
	}
	if len(slots) > 0 && (!done || r.Chance(40)) {
		slot := slots[r.Intn(len(slots))]
		depth := r.Range(2, 6)
		v := *slot
		for i := 0; i < depth; i++ {
			if r.Bool() {
				v = &nast.ListValue{Items: []nast.Node{v}}
			} else {
				v = &nast.ObjectValue{Fields: []*nast.ObjectField{{Name: &nast.Name{Value: "k"}, Value: v}}}
			}
		}
		*slot = v
		done = true
	}
	return done
}

// ---------------------------------------------------------------------------
// judging one case
// ---------------------------------------------------------------------------

func caseDetail(k *kase, v *verdict, extra map[string]interface{}) map[string]interface{} {
	d := map[string]interface{}{"source": clip(k.src, 6000), "origin": k.origin}
	if v != nil {
		for _, key := range []string{"printed", "printed_again", "reparsed_text", "error", "first_difference", "panic", "stack", "returned"} {
			if x, ok := v.detail[key]; ok {
				d[key] = x
			}
		}
		d["law"] = v.sig
	}
	for _, key := range []string{"hazardous_descriptions", "sub_node", "note"} {
		if x, ok := extra[key]; ok {
			d[key] = x
		}
	}
	return d
}

// defectRecords caps the violation records written per defect-class
// signature in one child: the classes are hit thousands of times per run and
// would otherwise use up the driver's per-child record budget (40), hiding any
// other signature. Every hit is still counted in the feature histogram.
var defectRecords = map[string]int{}

func violation(c *core.Child, sig, msg string, detail interface{}) {
	c.Feature("violation:" + sig)
	if len(sig) > 7 && sig[:7] == "defect:" {
		defectRecords[sig]++
		if defectRecords[sig] > 3 {
			return
		}
	}
	c.Violation(sig, msg, detail)
}

func checkCase(c *core.Child, r *core.RNG, k *kase) {
	// the AST with and without locations / source back-pointers
	var po parser.ParseOptions
	switch w := r.Intn(100); {
	case w < 8:
		po.NoLocation = true
		c.Feature("parse-options:NoLocation")
	case w < 15:
		po.NoSource = true
		c.Feature("parse-options:NoSource")
	}
	doc, err, pv := parseDocOpts(k.src, po)
	if pv != nil {
		// not this property's subject (C09), but never silently dropped
		violation(c, pv.sig, "parser panicked on the input text: "+pv.msg, caseDetail(k, pv, nil))
		return
	}
	if err != nil {
		switch {
		case k.d6Layout:
			c.DontCare("rejected-by-parser:layout-with-multibyte-ignored-run(D6)")
		case k.origin == "corpus":
			c.DontCare("rejected-by-parser:corpus-text")
		default:
			// a generated dialect document the parser refuses: a generator or a
			// parser defect, to be triaged (C03 owns the parser side)
			violation(c, "input:rejected", "the library parser rejects a generated document: "+firstLine(err.Error()), caseDetail(k, nil, map[string]interface{}{"note": err.Error()}))
		}
		return
	}
	c.Feature("origin:" + k.origin)
	a := analyse(conv(doc), k.src)
	for _, f := range a.order {
		c.Feature(f)
	}
	if a.invalidUTF8 != "" {
		// Don't-care: a string value of the AST is not valid UTF-8 (not text). In
		// dialect-valid input this only comes from the lexer's block-string defect
		// (the first line is cut at a byte offset, through a multi-byte
		// character). Crash / shape / no-mutation only.
		c.DontCare("ast-string-not-valid-utf8(lexer-block-string-cut)")
		if v := shapeLaws(c, doc); v != nil {
			violation(c, v.sig, v.msg, caseDetail(k, v, map[string]interface{}{"note": "string value at " + a.invalidUTF8 + " is not valid UTF-8"}))
		}
		return
	}
	if a.nontrivial() {
		c.Nontrivial(core.HashString(k.canon))
	}
	v := laws(c, doc, nil)
	if len(a.hazards) == 0 {
		if v != nil {
			violation(c, v.sig, v.msg, caseDetail(k, v, nil))
			return
		}
		c.Sample(k.origin, clip(k.src, 600))
	} else {
		class := worstHazard(a.hazards)
		var hz []map[string]string
		for i, h := range a.hazards {
			if i < 5 {
				hz = append(hz, map[string]string{"path": h.path, "class": h.class, "value": clip(h.node.Value, 200)})
			}
		}
		if v != nil {
			c.Feature("description-hazard:law-failed:" + class)
			violation(c, "defect:description-"+class, "a description the printer cannot write as a raw block string ("+class+") breaks the round trip: "+v.msg,
				caseDetail(k, v, map[string]interface{}{"hazardous_descriptions": hz}))
		} else {
			c.Feature("description-hazard:laws-held:" + class)
		}
		// Relaxation of the defect class: with the hazardous descriptions
		// neutralised, everything else about the document must round-trip.
		doc2, err2, pv2 := parseDocOpts(k.src, po)
		if pv2 != nil || err2 != nil {
			violation(c, "parse:unstable", "the same text did not parse the second time", caseDetail(k, pv2, nil))
			return
		}
		a2 := analyse(conv(doc2), k.src)
		for _, h := range a2.hazards {
			h.node.Value = "neutralised"
		}
		doc = doc2
		a = analyse(conv(doc), k.src)
		if v2 := laws(c, doc, nil); v2 != nil {
			violation(c, v2.sig, "with the hazardous descriptions neutralised: "+v2.msg, caseDetail(k, v2, map[string]interface{}{"hazardous_descriptions": hz, "note": "descriptions of the listed classes were replaced by the text `neutralised` in the AST before printing"}))
			return
		}
	}
	// the same laws on sub-nodes handed to Print directly (a sample)
	if r.Chance(35) {
		subNodes(c, r, k, a)
	}
}

func subNodes(c *core.Child, r *core.RNG, k *kase, a *analysis) {
	var cand []*gnode
	for _, g := range a.nodes[1:] {
		if g.Src != nil && wrapperFor(g.Src) != nil && !g.Desc {
			cand = append(cand, g)
		}
	}
	if len(cand) == 0 {
		return
	}
	n := 6
	for i := 0; i < n && len(cand) > 0; i++ {
		j := r.Intn(len(cand))
		g := cand[j]
		cand[j] = cand[len(cand)-1]
		cand = cand[:len(cand)-1]
		w := wrapperFor(g.Src)
		c.Feature("sub-node:" + w.name)
		if v := laws(c, g.Src, w); v != nil {
			violation(c, v.sig, "sub-node handed to Print directly: "+v.msg, caseDetail(k, v, map[string]interface{}{"sub_node": g.GoType}))
			return
		}
	}
}

var _ ast.Node
