package c08

import (
	"fmt"
	"strconv"
	"strings"

	"github.com/graphql-go/graphql/language/ast"
	"github.com/graphql-go/graphql/language/source"
)

// gnode is a generic, reflection-free image of one library AST node: every
// field of the concrete struct is copied into it by an explicit type switch
// (conv). The structural comparer and the snapshot dumper both work on it, so
// adding a field to one of them cannot be forgotten in the other.
type gnode struct {
	Src    ast.Node // the library node this image was made from
	GoType string   // concrete Go type, e.g. "*ast.Field"
	Kind   string   // the node's Kind field
	Loc    *ast.Location
	Attrs  []gattr // scalar fields in declaration order
	Kids   []gkid  // node-valued and slice-valued fields in grammar order
	Desc   bool    // this node is a Description (set by the parent)
}

type gattr struct {
	Name string
	Val  string
}

type gkid struct {
	Name    string
	IsList  bool
	NilList bool     // the slice field is nil (as opposed to empty)
	Node    *gnode   // when !IsList; nil when the field is nil
	List    []*gnode // when IsList
}

func one(name string, n *gnode) gkid { return gkid{Name: name, Node: n} }

func desc(n *ast.StringValue) gkid {
	g := conv(n)
	if g != nil {
		g.Desc = true
	}
	return gkid{Name: "Description", Node: g}
}

func listOf[T any](name string, xs []T, f func(T) *gnode) gkid {
	k := gkid{Name: name, IsList: true, NilList: xs == nil}
	for _, x := range xs {
		k.List = append(k.List, f(x))
	}
	return k
}

func convName(n *ast.Name) *gnode {
	if n == nil {
		return nil
	}
	return &gnode{Src: n, GoType: "*ast.Name", Kind: n.Kind, Loc: n.Loc, Attrs: []gattr{{"Value", n.Value}}}
}

func convNamed(n *ast.Named) *gnode {
	if n == nil {
		return nil
	}
	return &gnode{Src: n, GoType: "*ast.Named", Kind: n.Kind, Loc: n.Loc, Kids: []gkid{one("Name", convName(n.Name))}}
}

func convType(t ast.Type) *gnode {
	switch v := t.(type) {
	case nil:
		return nil
	case *ast.Named:
		return convNamed(v)
	case *ast.List:
		if v == nil {
			return nil
		}
		return &gnode{Src: v, GoType: "*ast.List", Kind: v.Kind, Loc: v.Loc, Kids: []gkid{one("Type", convType(v.Type))}}
	case *ast.NonNull:
		if v == nil {
			return nil
		}
		return &gnode{Src: v, GoType: "*ast.NonNull", Kind: v.Kind, Loc: v.Loc, Kids: []gkid{one("Type", convType(v.Type))}}
	}
	return &gnode{GoType: fmt.Sprintf("%T", t), Kind: "?unknown-type"}
}

func convValue(x ast.Value) *gnode {
	switch v := x.(type) {
	case nil:
		return nil
	case *ast.Variable:
		if v == nil {
			return nil
		}
		return &gnode{Src: v, GoType: "*ast.Variable", Kind: v.Kind, Loc: v.Loc, Kids: []gkid{one("Name", convName(v.Name))}}
	case *ast.IntValue:
		if v == nil {
			return nil
		}
		return &gnode{Src: v, GoType: "*ast.IntValue", Kind: v.Kind, Loc: v.Loc, Attrs: []gattr{{"Value", v.Value}}}
	case *ast.FloatValue:
		if v == nil {
			return nil
		}
		return &gnode{Src: v, GoType: "*ast.FloatValue", Kind: v.Kind, Loc: v.Loc, Attrs: []gattr{{"Value", v.Value}}}
	case *ast.StringValue:
		if v == nil {
			return nil
		}
		return &gnode{Src: v, GoType: "*ast.StringValue", Kind: v.Kind, Loc: v.Loc, Attrs: []gattr{{"Value", v.Value}}}
	case *ast.BooleanValue:
		if v == nil {
			return nil
		}
		return &gnode{Src: v, GoType: "*ast.BooleanValue", Kind: v.Kind, Loc: v.Loc, Attrs: []gattr{{"Value", strconv.FormatBool(v.Value)}}}
	case *ast.EnumValue:
		if v == nil {
			return nil
		}
		return &gnode{Src: v, GoType: "*ast.EnumValue", Kind: v.Kind, Loc: v.Loc, Attrs: []gattr{{"Value", v.Value}}}
	case *ast.ListValue:
		if v == nil {
			return nil
		}
		return &gnode{Src: v, GoType: "*ast.ListValue", Kind: v.Kind, Loc: v.Loc, Kids: []gkid{listOf("Values", v.Values, convValue)}}
	case *ast.ObjectValue:
		if v == nil {
			return nil
		}
		return &gnode{Src: v, GoType: "*ast.ObjectValue", Kind: v.Kind, Loc: v.Loc, Kids: []gkid{listOf("Fields", v.Fields, convObjectField)}}
	}
	return &gnode{GoType: fmt.Sprintf("%T", x), Kind: "?unknown-value"}
}

func convObjectField(f *ast.ObjectField) *gnode {
	if f == nil {
		return nil
	}
	return &gnode{Src: f, GoType: "*ast.ObjectField", Kind: f.Kind, Loc: f.Loc, Kids: []gkid{one("Name", convName(f.Name)), one("Value", convValue(f.Value))}}
}

func convArgument(a *ast.Argument) *gnode {
	if a == nil {
		return nil
	}
	return &gnode{Src: a, GoType: "*ast.Argument", Kind: a.Kind, Loc: a.Loc, Kids: []gkid{one("Name", convName(a.Name)), one("Value", convValue(a.Value))}}
}

func convDirective(d *ast.Directive) *gnode {
	if d == nil {
		return nil
	}
	return &gnode{Src: d, GoType: "*ast.Directive", Kind: d.Kind, Loc: d.Loc, Kids: []gkid{one("Name", convName(d.Name)), listOf("Arguments", d.Arguments, convArgument)}}
}

func convVarDef(v *ast.VariableDefinition) *gnode {
	if v == nil {
		return nil
	}
	var variable *gnode
	if v.Variable != nil {
		variable = convValue(v.Variable)
	}
	return &gnode{Src: v, GoType: "*ast.VariableDefinition", Kind: v.Kind, Loc: v.Loc, Kids: []gkid{one("Variable", variable), one("Type", convType(v.Type)), one("DefaultValue", convValue(v.DefaultValue))}}
}

func convSelectionSet(s *ast.SelectionSet) *gnode {
	if s == nil {
		return nil
	}
	return &gnode{Src: s, GoType: "*ast.SelectionSet", Kind: s.Kind, Loc: s.Loc, Kids: []gkid{listOf("Selections", s.Selections, convSelection)}}
}

func convSelection(s ast.Selection) *gnode {
	switch v := s.(type) {
	case nil:
		return nil
	case *ast.Field:
		if v == nil {
			return nil
		}
		return &gnode{Src: v, GoType: "*ast.Field", Kind: v.Kind, Loc: v.Loc, Kids: []gkid{
			one("Alias", convName(v.Alias)), one("Name", convName(v.Name)), listOf("Arguments", v.Arguments, convArgument),
			listOf("Directives", v.Directives, convDirective), one("SelectionSet", convSelectionSet(v.SelectionSet))}}
	case *ast.FragmentSpread:
		if v == nil {
			return nil
		}
		return &gnode{Src: v, GoType: "*ast.FragmentSpread", Kind: v.Kind, Loc: v.Loc, Kids: []gkid{one("Name", convName(v.Name)), listOf("Directives", v.Directives, convDirective)}}
	case *ast.InlineFragment:
		if v == nil {
			return nil
		}
		return &gnode{Src: v, GoType: "*ast.InlineFragment", Kind: v.Kind, Loc: v.Loc, Kids: []gkid{
			one("TypeCondition", convNamed(v.TypeCondition)), listOf("Directives", v.Directives, convDirective), one("SelectionSet", convSelectionSet(v.SelectionSet))}}
	}
	return &gnode{GoType: fmt.Sprintf("%T", s), Kind: "?unknown-selection"}
}

func convFieldDef(f *ast.FieldDefinition) *gnode {
	if f == nil {
		return nil
	}
	return &gnode{Src: f, GoType: "*ast.FieldDefinition", Kind: f.Kind, Loc: f.Loc, Kids: []gkid{
		desc(f.Description), one("Name", convName(f.Name)), listOf("Arguments", f.Arguments, convInputValueDef),
		one("Type", convType(f.Type)), listOf("Directives", f.Directives, convDirective)}}
}

func convInputValueDef(f *ast.InputValueDefinition) *gnode {
	if f == nil {
		return nil
	}
	return &gnode{Src: f, GoType: "*ast.InputValueDefinition", Kind: f.Kind, Loc: f.Loc, Kids: []gkid{
		desc(f.Description), one("Name", convName(f.Name)), one("Type", convType(f.Type)),
		one("DefaultValue", convValue(f.DefaultValue)), listOf("Directives", f.Directives, convDirective)}}
}

func convEnumValueDef(f *ast.EnumValueDefinition) *gnode {
	if f == nil {
		return nil
	}
	return &gnode{Src: f, GoType: "*ast.EnumValueDefinition", Kind: f.Kind, Loc: f.Loc, Kids: []gkid{
		desc(f.Description), one("Name", convName(f.Name)), listOf("Directives", f.Directives, convDirective)}}
}

func convOpTypeDef(f *ast.OperationTypeDefinition) *gnode {
	if f == nil {
		return nil
	}
	return &gnode{Src: f, GoType: "*ast.OperationTypeDefinition", Kind: f.Kind, Loc: f.Loc, Attrs: []gattr{{"Operation", f.Operation}}, Kids: []gkid{one("Type", convNamed(f.Type))}}
}

func convObjectDef(v *ast.ObjectDefinition) *gnode {
	if v == nil {
		return nil
	}
	return &gnode{Src: v, GoType: "*ast.ObjectDefinition", Kind: v.Kind, Loc: v.Loc, Kids: []gkid{
		desc(v.Description), one("Name", convName(v.Name)), listOf("Interfaces", v.Interfaces, convNamed),
		listOf("Directives", v.Directives, convDirective), listOf("Fields", v.Fields, convFieldDef)}}
}

// conv converts any library node (nil-safe).
func conv(n ast.Node) *gnode {
	switch v := n.(type) {
	case nil:
		return nil
	case *ast.Document:
		if v == nil {
			return nil
		}
		return &gnode{Src: v, GoType: "*ast.Document", Kind: v.Kind, Loc: v.Loc, Kids: []gkid{listOf("Definitions", v.Definitions, conv)}}
	case *ast.Name:
		return convName(v)
	case *ast.OperationDefinition:
		if v == nil {
			return nil
		}
		return &gnode{Src: v, GoType: "*ast.OperationDefinition", Kind: v.Kind, Loc: v.Loc, Attrs: []gattr{{"Operation", v.Operation}}, Kids: []gkid{
			one("Name", convName(v.Name)), listOf("VariableDefinitions", v.VariableDefinitions, convVarDef),
			listOf("Directives", v.Directives, convDirective), one("SelectionSet", convSelectionSet(v.SelectionSet))}}
	case *ast.FragmentDefinition:
		if v == nil {
			return nil
		}
		return &gnode{Src: v, GoType: "*ast.FragmentDefinition", Kind: v.Kind, Loc: v.Loc, Attrs: []gattr{{"Operation", v.Operation}}, Kids: []gkid{
			one("Name", convName(v.Name)), listOf("VariableDefinitions", v.VariableDefinitions, convVarDef),
			one("TypeCondition", convNamed(v.TypeCondition)), listOf("Directives", v.Directives, convDirective),
			one("SelectionSet", convSelectionSet(v.SelectionSet))}}
	case *ast.VariableDefinition:
		return convVarDef(v)
	case *ast.SelectionSet:
		return convSelectionSet(v)
	case *ast.Field:
		return convSelection(v)
	case *ast.FragmentSpread:
		return convSelection(v)
	case *ast.InlineFragment:
		return convSelection(v)
	case *ast.Argument:
		return convArgument(v)
	case *ast.Directive:
		return convDirective(v)
	case *ast.Named:
		return convNamed(v)
	case *ast.List:
		return convType(v)
	case *ast.NonNull:
		return convType(v)
	case *ast.Variable:
		if v == nil {
			return nil
		}
		return convValue(v)
	case *ast.IntValue:
		if v == nil {
			return nil
		}
		return convValue(v)
	case *ast.FloatValue:
		if v == nil {
			return nil
		}
		return convValue(v)
	case *ast.StringValue:
		if v == nil {
			return nil
		}
		return convValue(v)
	case *ast.BooleanValue:
		if v == nil {
			return nil
		}
		return convValue(v)
	case *ast.EnumValue:
		if v == nil {
			return nil
		}
		return convValue(v)
	case *ast.ListValue:
		if v == nil {
			return nil
		}
		return convValue(v)
	case *ast.ObjectValue:
		if v == nil {
			return nil
		}
		return convValue(v)
	case *ast.ObjectField:
		return convObjectField(v)
	case *ast.SchemaDefinition:
		if v == nil {
			return nil
		}
		return &gnode{Src: v, GoType: "*ast.SchemaDefinition", Kind: v.Kind, Loc: v.Loc, Kids: []gkid{
			listOf("Directives", v.Directives, convDirective), listOf("OperationTypes", v.OperationTypes, convOpTypeDef)}}
	case *ast.OperationTypeDefinition:
		return convOpTypeDef(v)
	case *ast.ScalarDefinition:
		if v == nil {
			return nil
		}
		return &gnode{Src: v, GoType: "*ast.ScalarDefinition", Kind: v.Kind, Loc: v.Loc, Kids: []gkid{
			desc(v.Description), one("Name", convName(v.Name)), listOf("Directives", v.Directives, convDirective)}}
	case *ast.ObjectDefinition:
		return convObjectDef(v)
	case *ast.FieldDefinition:
		return convFieldDef(v)
	case *ast.InputValueDefinition:
		return convInputValueDef(v)
	case *ast.InterfaceDefinition:
		if v == nil {
			return nil
		}
		return &gnode{Src: v, GoType: "*ast.InterfaceDefinition", Kind: v.Kind, Loc: v.Loc, Kids: []gkid{
			desc(v.Description), one("Name", convName(v.Name)), listOf("Directives", v.Directives, convDirective), listOf("Fields", v.Fields, convFieldDef)}}
	case *ast.UnionDefinition:
		if v == nil {
			return nil
		}
		return &gnode{Src: v, GoType: "*ast.UnionDefinition", Kind: v.Kind, Loc: v.Loc, Kids: []gkid{
			desc(v.Description), one("Name", convName(v.Name)), listOf("Directives", v.Directives, convDirective), listOf("Types", v.Types, convNamed)}}
	case *ast.EnumDefinition:
		if v == nil {
			return nil
		}
		return &gnode{Src: v, GoType: "*ast.EnumDefinition", Kind: v.Kind, Loc: v.Loc, Kids: []gkid{
			desc(v.Description), one("Name", convName(v.Name)), listOf("Directives", v.Directives, convDirective), listOf("Values", v.Values, convEnumValueDef)}}
	case *ast.EnumValueDefinition:
		return convEnumValueDef(v)
	case *ast.InputObjectDefinition:
		if v == nil {
			return nil
		}
		return &gnode{Src: v, GoType: "*ast.InputObjectDefinition", Kind: v.Kind, Loc: v.Loc, Kids: []gkid{
			desc(v.Description), one("Name", convName(v.Name)), listOf("Directives", v.Directives, convDirective), listOf("Fields", v.Fields, convInputValueDef)}}
	case *ast.TypeExtensionDefinition:
		if v == nil {
			return nil
		}
		return &gnode{Src: v, GoType: "*ast.TypeExtensionDefinition", Kind: v.Kind, Loc: v.Loc, Kids: []gkid{one("Definition", convObjectDef(v.Definition))}}
	case *ast.DirectiveDefinition:
		if v == nil {
			return nil
		}
		return &gnode{Src: v, GoType: "*ast.DirectiveDefinition", Kind: v.Kind, Loc: v.Loc, Kids: []gkid{
			desc(v.Description), one("Name", convName(v.Name)), listOf("Arguments", v.Arguments, convInputValueDef), listOf("Locations", v.Locations, convName)}}
	}
	return &gnode{GoType: fmt.Sprintf("%T", n), Kind: "?unknown-node"}
}

// ---------------------------------------------------------------------------
// structural comparison (Loc ignored; nil slice == empty slice; a nil
// description == a description whose Value is "")
// ---------------------------------------------------------------------------

func emptyDesc(g *gnode) bool {
	return g == nil || (g.Desc && len(g.Attrs) == 1 && g.Attrs[0].Val == "")
}

// diff returns "" when a and b are structurally equal, otherwise a
// description of the first difference including its path.
func diff(path string, a, b *gnode) string {
	if a == nil || b == nil {
		if a == nil && b == nil {
			return ""
		}
		if emptyDesc(a) && emptyDesc(b) && ((a != nil && a.Desc) || (b != nil && b.Desc)) {
			return "" // documented tolerance: nil description == empty description
		}
		return fmt.Sprintf("%s: %s vs %s", path, brief(a), brief(b))
	}
	if a.GoType != b.GoType {
		return fmt.Sprintf("%s: node type %s vs %s", path, a.GoType, b.GoType)
	}
	if a.Kind != b.Kind {
		return fmt.Sprintf("%s: Kind %q vs %q", path, a.Kind, b.Kind)
	}
	for i := range a.Attrs {
		if a.Attrs[i].Val != b.Attrs[i].Val {
			return fmt.Sprintf("%s.%s: %q vs %q", path, a.Attrs[i].Name, a.Attrs[i].Val, b.Attrs[i].Val)
		}
	}
	for i := range a.Kids {
		ka, kb := a.Kids[i], b.Kids[i]
		p := path + "." + ka.Name
		if ka.IsList {
			if len(ka.List) != len(kb.List) {
				return fmt.Sprintf("%s: %d items vs %d items", p, len(ka.List), len(kb.List))
			}
			for j := range ka.List {
				if d := diff(fmt.Sprintf("%s[%d]", p, j), ka.List[j], kb.List[j]); d != "" {
					return d
				}
			}
			continue
		}
		if d := diff(p, ka.Node, kb.Node); d != "" {
			return d
		}
	}
	return ""
}

func brief(g *gnode) string {
	if g == nil {
		return "<nil>"
	}
	s := g.GoType
	for _, a := range g.Attrs {
		s += fmt.Sprintf(" %s=%q", a.Name, a.Val)
	}
	return s
}

// ---------------------------------------------------------------------------
// snapshot: canonical dump of EVERY field, Loc.Start/End and Source included
// ---------------------------------------------------------------------------

// snapshot dumps the tree one node per line. Source objects are identified by
// a small index in order of first appearance, and each distinct Source is
// dumped once with name and a hash of its body, so that a modification of the
// source body or a re-pointed Loc shows.
func snapshot(g *gnode) string {
	var b strings.Builder
	var srcs []*source.Source
	srcID := func(s *source.Source) int {
		for i, x := range srcs {
			if x == s {
				return i
			}
		}
		srcs = append(srcs, s)
		return len(srcs) - 1
	}
	var walk func(path string, g *gnode)
	walk = func(path string, g *gnode) {
		if g == nil {
			b.WriteString(path + " = <nil>\n")
			return
		}
		b.WriteString(path + " = " + g.GoType + " Kind=" + strconv.Quote(g.Kind))
		if g.Loc == nil {
			b.WriteString(" Loc=<nil>")
		} else {
			fmt.Fprintf(&b, " Loc=%d..%d", g.Loc.Start, g.Loc.End)
			if g.Loc.Source == nil {
				b.WriteString(" src=<nil>")
			} else {
				fmt.Fprintf(&b, " src=#%d", srcID(g.Loc.Source))
			}
		}
		for _, a := range g.Attrs {
			b.WriteString(" " + a.Name + "=" + strconv.Quote(a.Val))
		}
		b.WriteByte('\n')
		for _, k := range g.Kids {
			p := path + "." + k.Name
			if k.IsList {
				if k.NilList {
					b.WriteString(p + " = nil slice\n")
				} else {
					fmt.Fprintf(&b, "%s = slice len %d\n", p, len(k.List))
				}
				for j, x := range k.List {
					walk(fmt.Sprintf("%s[%d]", p, j), x)
				}
				continue
			}
			walk(p, k.Node)
		}
	}
	walk("$", g)
	for i, s := range srcs {
		fmt.Fprintf(&b, "source #%d name=%q len=%d fnv=%016x\n", i, s.Name, len(s.Body), fnv(s.Body))
	}
	return b.String()
}

func fnv(p []byte) uint64 {
	h := uint64(14695981039346656037)
	for _, c := range p {
		h ^= uint64(c)
		h *= 1099511628211
	}
	return h
}

// firstLineDiff reports the first line where two snapshots differ.
func firstLineDiff(a, b string) string {
	la, lb := strings.Split(a, "\n"), strings.Split(b, "\n")
	for i := 0; i < len(la) || i < len(lb); i++ {
		var x, y string
		if i < len(la) {
			x = la[i]
		}
		if i < len(lb) {
			y = lb[i]
		}
		if x != y {
			return fmt.Sprintf("before: %s | after: %s", x, y)
		}
	}
	return ""
}
