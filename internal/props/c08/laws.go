package c08

import (
	"fmt"
	"strings"

	"github.com/graphql-go/graphql/language/ast"
	"github.com/graphql-go/graphql/language/parser"
	"github.com/graphql-go/graphql/language/printer"

	"verif/internal/core"
)

// verdict is one refutation of a law (nil = all laws held).
type verdict struct {
	sig    string
	msg    string
	detail map[string]interface{}
}

func clip(s string, n int) string {
	if len(s) > n {
		return s[:n] + fmt.Sprintf("...(%d bytes)", len(s))
	}
	return s
}

// guard runs f; a panic that escapes the library becomes a verdict.
func guard(sigPrefix string, f func()) (v *verdict) {
	defer func() {
		if r := recover(); r != nil {
			st := stack()
			v = &verdict{sig: sigPrefix + ":" + core.PanicSite(st), msg: fmt.Sprintf("panic escaped: %v", r),
				detail: map[string]interface{}{"panic": fmt.Sprint(r), "stack": clip(st, 3000)}}
		}
	}()
	f()
	return nil
}

// printNode calls printer.Print and demands a string.
func printNode(c *core.Child, n ast.Node, what string) (string, *verdict) {
	var out interface{}
	if c != nil {
		c.Eval(1)
	}
	if v := guard("print:panic", func() { out = printer.Print(n) }); v != nil {
		return "", v
	}
	s, ok := out.(string)
	if !ok {
		// printer.Print recovers panics itself and then returns nil
		return "", &verdict{sig: "print:notstring", msg: fmt.Sprintf("Print(%s) returned %T, not a string (Print swallows its own panics and returns nil)", what, out),
			detail: map[string]interface{}{"returned": fmt.Sprintf("%#v", out)}}
	}
	return s, nil
}

func parseDoc(text string) (doc *ast.Document, err error, v *verdict) {
	return parseDocOpts(text, parser.ParseOptions{NoSource: false})
}

func parseDocOpts(text string, o parser.ParseOptions) (doc *ast.Document, err error, v *verdict) {
	v = guard("parse:panic", func() {
		doc, err = parser.Parse(parser.ParseParams{Source: text, Options: o})
	})
	return
}

// wrapper describes how to re-parse the printed text of a sub-node: the text
// is embedded in a minimal document and the node dug out again.
type wrapper struct {
	name    string
	pre     string
	post    string
	extract func(d *ast.Document) ast.Node
}

func firstOp(d *ast.Document) *ast.OperationDefinition {
	if len(d.Definitions) != 1 {
		return nil
	}
	op, _ := d.Definitions[0].(*ast.OperationDefinition)
	return op
}

func onlyField(d *ast.Document) *ast.Field {
	op := firstOp(d)
	if op == nil || op.SelectionSet == nil || len(op.SelectionSet.Selections) != 1 {
		return nil
	}
	f, _ := op.SelectionSet.Selections[0].(*ast.Field)
	return f
}

// wrapperFor returns how to re-parse Print(n) for the sub-node kinds sampled.
func wrapperFor(n ast.Node) *wrapper {
	switch n.(type) {
	case *ast.IntValue, *ast.FloatValue, *ast.StringValue, *ast.BooleanValue, *ast.EnumValue, *ast.ListValue, *ast.ObjectValue, *ast.Variable:
		return &wrapper{name: "value", pre: "{ f(a: ", post: ") }", extract: func(d *ast.Document) ast.Node {
			f := onlyField(d)
			if f == nil || len(f.Arguments) != 1 {
				return nil
			}
			return f.Arguments[0].Value
		}}
	case *ast.Name:
		return &wrapper{name: "name", pre: "{ ", post: " }", extract: func(d *ast.Document) ast.Node {
			f := onlyField(d)
			if f == nil || f.Name == nil {
				return nil
			}
			return f.Name
		}}
	case *ast.OperationTypeDefinition:
		return &wrapper{name: "operation type definition", pre: "schema { ", post: " }", extract: func(d *ast.Document) ast.Node {
			if len(d.Definitions) != 1 {
				return nil
			}
			sd, _ := d.Definitions[0].(*ast.SchemaDefinition)
			if sd == nil || len(sd.OperationTypes) != 1 {
				return nil
			}
			return sd.OperationTypes[0]
		}}
	case *ast.Named, *ast.List, *ast.NonNull:
		return &wrapper{name: "type", pre: "query ($v: ", post: ") { f }", extract: func(d *ast.Document) ast.Node {
			op := firstOp(d)
			if op == nil || len(op.VariableDefinitions) != 1 {
				return nil
			}
			return op.VariableDefinitions[0].Type
		}}
	case *ast.SelectionSet:
		return &wrapper{name: "selection set", pre: "", post: "", extract: func(d *ast.Document) ast.Node {
			op := firstOp(d)
			if op == nil || op.SelectionSet == nil {
				return nil
			}
			return op.SelectionSet
		}}
	case *ast.Field, *ast.FragmentSpread, *ast.InlineFragment:
		return &wrapper{name: "selection", pre: "{ ", post: " }", extract: func(d *ast.Document) ast.Node {
			op := firstOp(d)
			if op == nil || op.SelectionSet == nil || len(op.SelectionSet.Selections) != 1 {
				return nil
			}
			return op.SelectionSet.Selections[0].(ast.Node)
		}}
	case *ast.Directive:
		return &wrapper{name: "directive", pre: "{ f ", post: " }", extract: func(d *ast.Document) ast.Node {
			f := onlyField(d)
			if f == nil || len(f.Directives) != 1 {
				return nil
			}
			return f.Directives[0]
		}}
	case *ast.Argument:
		return &wrapper{name: "argument", pre: "{ f(", post: ") }", extract: func(d *ast.Document) ast.Node {
			f := onlyField(d)
			if f == nil || len(f.Arguments) != 1 {
				return nil
			}
			return f.Arguments[0]
		}}
	case *ast.ObjectField:
		return &wrapper{name: "object field", pre: "{ f(a: {", post: "}) }", extract: func(d *ast.Document) ast.Node {
			f := onlyField(d)
			if f == nil || len(f.Arguments) != 1 {
				return nil
			}
			o, _ := f.Arguments[0].Value.(*ast.ObjectValue)
			if o == nil || len(o.Fields) != 1 {
				return nil
			}
			return o.Fields[0]
		}}
	case *ast.VariableDefinition:
		return &wrapper{name: "variable definition", pre: "query (", post: ") { f }", extract: func(d *ast.Document) ast.Node {
			op := firstOp(d)
			if op == nil || len(op.VariableDefinitions) != 1 {
				return nil
			}
			return op.VariableDefinitions[0]
		}}
	case *ast.FieldDefinition:
		return &wrapper{name: "field definition", pre: "type T {", post: "\n}", extract: func(d *ast.Document) ast.Node {
			if len(d.Definitions) != 1 {
				return nil
			}
			o, _ := d.Definitions[0].(*ast.ObjectDefinition)
			if o == nil || len(o.Fields) != 1 {
				return nil
			}
			return o.Fields[0]
		}}
	case *ast.InputValueDefinition:
		return &wrapper{name: "input value definition", pre: "input I {", post: "\n}", extract: func(d *ast.Document) ast.Node {
			if len(d.Definitions) != 1 {
				return nil
			}
			o, _ := d.Definitions[0].(*ast.InputObjectDefinition)
			if o == nil || len(o.Fields) != 1 {
				return nil
			}
			return o.Fields[0]
		}}
	case *ast.EnumValueDefinition:
		return &wrapper{name: "enum value definition", pre: "enum E {", post: "\n}", extract: func(d *ast.Document) ast.Node {
			if len(d.Definitions) != 1 {
				return nil
			}
			o, _ := d.Definitions[0].(*ast.EnumDefinition)
			if o == nil || len(o.Values) != 1 {
				return nil
			}
			return o.Values[0]
		}}
	case *ast.OperationDefinition, *ast.FragmentDefinition, *ast.SchemaDefinition, *ast.ScalarDefinition, *ast.ObjectDefinition,
		*ast.InterfaceDefinition, *ast.UnionDefinition, *ast.EnumDefinition, *ast.InputObjectDefinition,
		*ast.TypeExtensionDefinition, *ast.DirectiveDefinition:
		return &wrapper{name: "definition", pre: "", post: "", extract: func(d *ast.Document) ast.Node {
			if len(d.Definitions) != 1 {
				return nil
			}
			return d.Definitions[0]
		}}
	}
	return nil
}

// laws applies the property's laws to one node handed to Print:
//
//	L1  Print(n) is a string (and no panic escapes)
//	L5  the AST (every field, Loc included) is unchanged by Print
//	L2  the printed text parses (for a sub-node: inside the minimal wrapper)
//	L3  the re-parsed node is structurally equal to n
//	L4  Print(re-parsed) == Print(n)
//
// The first law that fails is returned.
func laws(c *core.Child, n ast.Node, w *wrapper) *verdict {
	what := "document"
	if w != nil {
		what = w.name
	}
	img0 := conv(n)
	snap0 := snapshot(img0)
	p1, v := printNode(c, n, what)
	if v != nil {
		return v
	}
	if snap1 := snapshot(conv(n)); snap1 != snap0 {
		return &verdict{sig: "print:mutates", msg: "Print modified the AST it was given (" + what + "): " + clip(firstLineDiff(snap0, snap1), 400),
			detail: map[string]interface{}{"printed": clip(p1, 4000), "first_difference": firstLineDiff(snap0, snap1)}}
	}
	text := p1
	if w != nil {
		text = w.pre + p1 + w.post
	}
	doc2, err, v := parseDoc(text)
	if v != nil {
		v.detail["printed"] = clip(p1, 4000)
		return v
	}
	if err != nil {
		return &verdict{sig: "roundtrip:noparse", msg: "the printed " + what + " does not parse: " + firstLine(err.Error()),
			detail: map[string]interface{}{"printed": clip(p1, 4000), "reparsed_text": clip(text, 4000), "error": clip(err.Error(), 600)}}
	}
	var n2 ast.Node = doc2
	if w != nil {
		var ev *verdict
		ev = guard("harness:extract", func() { n2 = w.extract(doc2) })
		if ev != nil || n2 == nil || isNilNode(n2) {
			return &verdict{sig: "roundtrip:ast", msg: "the printed " + what + " re-parses to a different shape (cannot find the node again in the wrapper document)",
				detail: map[string]interface{}{"printed": clip(p1, 4000), "reparsed_text": clip(text, 4000)}}
		}
	}
	if d := diff("$", img0, conv(n2)); d != "" {
		return &verdict{sig: "roundtrip:ast", msg: "re-parsed " + what + " differs from the original at " + clip(d, 300),
			detail: map[string]interface{}{"printed": clip(p1, 4000), "first_difference": d}}
	}
	p2, v := printNode(c, n2, what)
	if v != nil {
		v.detail["printed"] = clip(p1, 4000)
		v.msg = "second print: " + v.msg
		return v
	}
	if p2 != p1 {
		return &verdict{sig: "roundtrip:unstable", msg: "Print(re-parsed) differs from the first print (" + what + ")",
			detail: map[string]interface{}{"printed": clip(p1, 4000), "printed_again": clip(p2, 4000)}}
	}
	return nil
}

// shapeLaws are the laws that remain for a don't-care case: Print returns a
// string, nothing panics, the AST is not modified.
func shapeLaws(c *core.Child, n ast.Node) *verdict {
	snap0 := snapshot(conv(n))
	p1, v := printNode(c, n, "document")
	if v != nil {
		return v
	}
	if snap1 := snapshot(conv(n)); snap1 != snap0 {
		return &verdict{sig: "print:mutates", msg: "Print modified the AST it was given: " + clip(firstLineDiff(snap0, snap1), 400),
			detail: map[string]interface{}{"printed": clip(p1, 4000), "first_difference": firstLineDiff(snap0, snap1)}}
	}
	return nil
}

func firstLine(s string) string {
	if i := strings.IndexByte(s, '\n'); i >= 0 {
		return s[:i]
	}
	return s
}

func isNilNode(n ast.Node) bool {
	g := conv(n)
	return g == nil
}
