package c08

import (
	"runtime/debug"
	"strings"
	"unicode/utf8"

	"github.com/graphql-go/graphql/language/ast"
)

func stack() string { return string(debug.Stack()) }

// ---------------------------------------------------------------------------
// Defect classes of descriptions (predicates on the INPUT: the description's
// value as parsed). The printer writes a description d as the raw block
// string `"""d"""` (or `"""<LF>d<LF>"""` when d contains LF) without escaping
// and without asking whether a block string can hold d. The four classes
// below are exactly the values that cannot survive that scheme; see README.
// ---------------------------------------------------------------------------

func blankLine(s string) bool { return strings.Trim(s, " \t") == "" }

func indentOf(s string) int {
	n := 0
	for n < len(s) && (s[n] == ' ' || s[n] == '\t') {
		n++
	}
	return n
}

// descHazard returns "" when the printer's raw-block-string scheme preserves
// d, otherwise the name of the defect class (in priority order).
func descHazard(d string) string {
	if d == "" {
		return "" // printed as no description at all; nil == empty is a documented tolerance
	}
	if strings.Contains(d, `"""`) {
		return "triple-quote"
	}
	for _, r := range d {
		if r < 0x20 && r != '\t' && r != '\n' {
			return "control-char"
		}
	}
	if !strings.Contains(d, "\n") {
		if strings.HasSuffix(d, `"`) || strings.HasSuffix(d, `\`) {
			return "trailing-quote-or-backslash"
		}
		if blankLine(d) {
			return "blank-or-indented"
		}
		return ""
	}
	lines := strings.Split(d, "\n")
	if blankLine(lines[0]) || blankLine(lines[len(lines)-1]) {
		return "blank-or-indented"
	}
	min := -1
	for _, l := range lines {
		if blankLine(l) {
			continue
		}
		if n := indentOf(l); min < 0 || n < min {
			min = n
		}
	}
	if min > 0 {
		return "blank-or-indented"
	}
	return ""
}

var hazardOrder = []string{"triple-quote", "control-char", "trailing-quote-or-backslash", "blank-or-indented"}

type hazard struct {
	node  *ast.StringValue
	class string
	path  string
}

// worstHazard picks the class reported for a case: the first in hazardOrder.
func worstHazard(hs []hazard) string {
	for _, cl := range hazardOrder {
		for _, h := range hs {
			if h.class == cl {
				return cl
			}
		}
	}
	return ""
}

// ---------------------------------------------------------------------------
// features of a case (computed on the parsed AST, so they are uniform for
// generated documents and for files)
// ---------------------------------------------------------------------------

type analysis struct {
	invalidUTF8 string // path of the first string value that is not valid UTF-8 ("" = none)
	hazards     []hazard
	feat        map[string]bool
	order       []string // feature names in first-seen order (no map iteration)
	nodes       []*gnode // every node, pre-order (for sub-node sampling)
}

func (a *analysis) set(name string) {
	if !a.feat[name] {
		a.feat[name] = true
		a.order = append(a.order, name)
	}
}

func stringClasses(a *analysis, prefix, s string) (hostile bool) {
	for _, r := range s {
		switch {
		case r == '"':
			a.set(prefix + ":quote")
			hostile = true
		case r == '\\':
			a.set(prefix + ":backslash")
			hostile = true
		case r == '/':
			a.set(prefix + ":slash")
		case r == '\n' || r == '\r' || r == '\t' || r == '\b' || r == '\f':
			a.set(prefix + ":short-escape-control")
			hostile = true
		case r < 0x20:
			a.set(prefix + ":other-control")
			hostile = true
		case r == 0x7f:
			a.set(prefix + ":DEL")
			hostile = true
		case r >= 0x80 && r <= 0x9f:
			a.set(prefix + ":C1")
			hostile = true
		case r == 0x2028 || r == 0x2029:
			a.set(prefix + ":LS-PS")
			hostile = true
		case r == 0xfeff:
			a.set(prefix + ":BOM")
			hostile = true
		case r == utf8.RuneError:
			a.set(prefix + ":U+FFFD")
			hostile = true
		case r > 0xffff:
			a.set(prefix + ":non-BMP")
			hostile = true
		case r > 0x7e:
			a.set(prefix + ":other-non-ASCII")
			hostile = true
		}
	}
	if strings.Contains(s, `"""`) {
		a.set(prefix + ":triple-quote")
	}
	if s == "" {
		a.set(prefix + ":empty")
	}
	return hostile
}

// analyse walks the image once.
func analyse(root *gnode, src string) *analysis {
	a := &analysis{feat: map[string]bool{}}
	var walk func(g *gnode, path string, valueDepth int, owner string)
	walk = func(g *gnode, path string, valueDepth int, owner string) {
		if g == nil {
			return
		}
		a.nodes = append(a.nodes, g)
		kind := strings.TrimPrefix(g.GoType, "*ast.")
		a.set("kind:" + kind)
		switch kind {
		case "SchemaDefinition", "ScalarDefinition", "ObjectDefinition", "InterfaceDefinition", "UnionDefinition", "EnumDefinition",
			"InputObjectDefinition", "TypeExtensionDefinition", "DirectiveDefinition":
			a.set("nt:type-system-definition")
		case "StringValue":
			v := g.Attrs[0].Val
			if !utf8.ValidString(v) && a.invalidUTF8 == "" {
				a.invalidUTF8 = path
			}
			if g.Desc {
				a.set("nt:description")
				a.set("description-on:" + owner)
				stringClasses(a, "desc", v)
				if strings.Contains(v, "\n") {
					a.set("desc:multi-line")
				}
				if h := descHazard(v); h != "" {
					a.set("desc-hazard:" + h)
					a.hazards = append(a.hazards, hazard{node: g.Src.(*ast.StringValue), class: h, path: path})
				}
			} else if stringClasses(a, "string", v) {
				a.set("nt:hostile-string")
			}
		case "Directive":
			if len(g.Kids) > 1 && len(g.Kids[1].List) > 0 {
				a.set("nt:directive-with-arguments")
				a.set("directive-with-arguments-on:" + owner)
			} else {
				a.set("directive-without-arguments-on:" + owner)
			}
		case "ListValue", "ObjectValue":
			valueDepth++
			if valueDepth >= 2 {
				a.set("nt:nested-value-depth>=2")
			}
			if valueDepth >= 4 {
				a.set("value-depth>=4")
			}
			if len(g.Kids[0].List) == 0 {
				a.set("empty:" + kind)
			}
		case "OperationDefinition":
			a.set("operation:" + g.Attrs[0].Val)
		}
		if kind == "ObjectDefinition" && len(g.Kids) > 2 {
			switch n := len(g.Kids[2].List); {
			case n >= 2:
				a.set("implements>=2")
			case n == 1:
				a.set("implements=1")
			}
		}
		for _, k := range g.Kids {
			p := path + "." + k.Name
			if k.IsList {
				if len(k.List) == 0 && (k.Name == "Fields" || k.Name == "Values") && strings.HasSuffix(kind, "Definition") {
					a.set("empty-block:" + kind)
				}
				for _, x := range k.List {
					walk(x, p+"[]", valueDepth, kind)
				}
				continue
			}
			walk(k.Node, p, valueDepth, kind)
		}
	}
	walk(root, "$", 0, "")
	if strings.Contains(src, `"""`) {
		a.set("nt:block-string-in-source")
	}
	return a
}

// nontrivial is the stated rule: the document contains at least one of
// {string with a character outside printable ASCII or needing an escape, block
// string, description, directive with arguments, nested list/object value of
// depth >= 2, type-system definition}.
func (a *analysis) nontrivial() bool {
	for _, n := range a.order {
		if strings.HasPrefix(n, "nt:") {
			return true
		}
	}
	return false
}
