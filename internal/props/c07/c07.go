// Package c07: one schema, plan and plan cache can serve concurrent
// requests safely (Go race detector + response equality with solo execution,
// on cold schemas).
package c07

import (
	"encoding/json"
	"fmt"
	"runtime"
	"sort"
	"strings"
	"sync"
	"sync/atomic"
	"time"

	"github.com/graphql-go/graphql"
	"github.com/graphql-go/graphql/testutil"
	"github.com/graphql-go/graphql/verifhook"

	"verif/internal/build"
	"verif/internal/core"
	"verif/internal/gen/schemagen"
	"verif/internal/gen/typedoc"
	"verif/internal/harness"
	"verif/internal/model"
	"verif/internal/mon/gorou"
	"verif/internal/nast"
)

func init() {
	core.Register(&core.Check{
		ID: "C07", Level: "exploration", Race: true,
		Technique: "Go race detector over the real entry points (children are built with -race; every report block with a library frame is a violation, de-duplicated by the pair of first library frames), plus a per-request differential against the same request executed alone on an identically generated cold schema, plus verifhook counters showing which lazy-initialisation sites were entered by several goroutines in one round; yield hooks (Gosched / short sleeps at lazy sites) in half of the rounds",
		Rule:      "case = one round: a fresh cold schema built from a generated model, one shared PlanCache (MaxEntries 2), optionally shared prepared plans, N goroutines released from a barrier, each issuing a PRNG-chosen sequence of {Do, ValidateDocument, PlanCache.Get+ExecutePlan, ExecutePlan on a shared plan, Reset, introspection}; non-trivial: >= 2 goroutines executed requests touching an enum, a union or an interface; distinct by hash(model, request multiset, op sequences)",
		Assumptions: []string{
			"the race detector only sees races that the executed schedule makes possible (happens-before analysis); interleavings the scheduler never produced and code the workload never reaches are not covered",
			"harness callbacks take no locks on the request path (no event log, lock-free outcome table), so they add no happens-before edges that could hide a library race",
		},
		Batches:      func(tier string) int { return map[string]int{"quick": 8, "thorough": 16}[tier] },
		Run:          run,
		ChildTimeout: func(tier string) time.Duration { return 25 * time.Minute },
		MinEvals:     func(tier string) int { return 2000 },
	})
}

type req struct {
	text string
	op   string
	vars map[string]interface{}
	kind string
}

func canon(r *graphql.Result) string {
	b, err := json.Marshal(r)
	if err != nil {
		return "marshal error: " + err.Error()
	}
	return string(b)
}

func touches(m *model.Schema, text string) (enum, abstract bool) {
	for _, t := range m.Types {
		switch t.Kind {
		case model.Enum:
			for _, v := range t.Values {
				if strings.Contains(text, v.Name) {
					enum = true
				}
			}
		}
	}
	if strings.Contains(text, "... on ") || strings.Contains(text, "__typename") {
		abstract = true
	}
	return
}

func run(c *core.Child) {
	rounds := c.Scale(30, 400)
	nG := c.Scale(8, 16)
	opsPer := c.Scale(6, 10)
	procs := []int{2, 4, 16}
	orders := map[uint64]bool{}
	siteMulti := map[string]int64{}
	for ri := 0; ri < rounds; ri++ {
		id := fmt.Sprintf("round/%d", ri)
		if !c.Begin(id) {
			continue
		}
		rr := c.RNG(1, uint64(ri))
		runtime.GOMAXPROCS(procs[ri%len(procs)])
		so := schemagen.DefaultOptions(rr)
		m := schemagen.Gen(rr, so)
		vseed := rr.U64()
		// request set
		var reqs []req
		for di := 0; di < 6; di++ {
			dr := c.RNG(2, uint64(ri), uint64(di))
			o := typedoc.DefaultOptions(dr)
			o.Ops = 1
			o.Mutation = false
			d := typedoc.Gen(dr, m, o)
			op := d.Ops[0]
			name := ""
			if op.Name != nil {
				name = op.Name.Value
			}
			reqs = append(reqs, req{text: nast.Print(d.AST), op: name, vars: typedoc.Assignment(dr, m, d, op, dr.U64()), kind: "typed"})
		}
		// one request per abstract-typed root field that names every possible
		// type in a type condition: all goroutines meet the possible-type
		// tables and the per-runtime-type sub-plans cold, at the same time
		for _, f := range m.Type(m.Query).Fields {
			td := m.Type(f.Type.Base())
			if td == nil || (td.Kind != model.Interface && td.Kind != model.Union) {
				continue
			}
			need := false
			for _, a := range f.Args {
				if a.Type.Kind == "nonnull" {
					need = true
				}
			}
			if need {
				continue
			}
			var b strings.Builder
			fmt.Fprintf(&b, "{ %s { __typename", f.Name)
			for _, pt := range m.PossibleTypes(td.Name) {
				fmt.Fprintf(&b, " ... on %s { __typename }", pt)
			}
			b.WriteString(" } }")
			reqs = append(reqs, req{text: b.String(), kind: "abstract-probe"})
		}
		// same shape, different literals: with Normalize on these share one
		// cache entry and differ only in the per-call synthetic variables
		for _, f := range m.Type(m.Query).Fields {
			if !m.IsLeaf(f.Type.Base()) || len(f.Args) != 1 || f.Args[0].Type.Kind != "named" {
				continue
			}
			lits := map[string][]string{"String": {`"v1"`, `"v2"`, `"v3"`}, "Int": {"1", "2", "3"}, "ID": {`"i1"`, "2", `"i3"`}, "Boolean": {"true", "false", "true"}}[f.Args[0].Type.Name]
			for _, l := range lits {
				reqs = append(reqs, req{text: fmt.Sprintf("{ %s(%s: %s) }", f.Name, f.Args[0].Name, l), kind: "literal-variant"})
			}
			if lits != nil {
				break
			}
		}
		reqs = append(reqs, req{text: `{ a: __typename @include(if: true) b: __typename @skip(if: false) }`, kind: "literal-variant"},
			req{text: `{ a: __typename @include(if: false) b: __typename @skip(if: false) }`, kind: "literal-variant"},
			req{text: `{ a: __typename @include(if: true) b: __typename @skip(if: true) }`, kind: "literal-variant"})
		reqs = append(reqs, req{text: testutil.IntrospectionQuery, kind: "introspection"})
		reqs = append(reqs, req{text: `{ __schema { types { name possibleTypes { name } enumValues { name } } } }`, kind: "introspection"})
		reqs = append(reqs, req{text: `{ nope }`, kind: "invalid"})
		// solo baselines on a separate, identically generated schema
		solo, err := build.Build(m, vseed)
		if err != nil {
			continue
		}
		solo.Quiet = true
		want := make([]string, len(reqs))
		for i, rq := range reqs {
			want[i] = canon(graphql.Do(graphql.Params{Schema: solo.Schema, RequestString: rq.text, OperationName: rq.op, VariableValues: rq.vars}))
		}
		// the cold, shared objects of this round
		env, err := build.Build(m, vseed)
		if err != nil {
			continue
		}
		env.Quiet = true
		// every third round: a second schema of the same shape (another pointer,
		// another value universe) is served through the SAME cache; a plan bound
		// to one schema must never be handed out for the other
		twoSchemas := ri%3 == 2
		envs := []*build.Env{env}
		wants := [][]string{want}
		if twoSchemas {
			env2, err := build.Build(m, vseed+1)
			solo2, err2 := build.Build(m, vseed+1)
			if err != nil || err2 != nil {
				continue
			}
			env2.Quiet, solo2.Quiet = true, true
			want2 := make([]string, len(reqs))
			for i, rq := range reqs {
				want2[i] = canon(graphql.Do(graphql.Params{Schema: solo2.Schema, RequestString: rq.text, OperationName: rq.op, VariableValues: rq.vars}))
			}
			envs = append(envs, env2)
			wants = append(wants, want2)
			c.Feature("round-with-two-schemas-one-cache")
		}
		maxEntries := 2
		if ri%5 >= 3 || twoSchemas {
			maxEntries = 64
		}
		cache := graphql.NewPlanCache(graphql.PlanCacheOptions{MaxEntries: maxEntries, Normalize: ri%4 == 1})
		sharedPlans := make([]*graphql.Plan, len(reqs))
		if ri%2 == 0 {
			for i, rq := range reqs {
				if doc, err := harness.Parse(rq.text); err == nil {
					if vr := graphql.ValidateDocument(&env.Schema, doc, nil); vr.IsValid {
						if p, err := graphql.PlanQuery(&env.Schema, doc, rq.op); err == nil {
							sharedPlans[i] = p
						}
					}
				}
			}
			c.Feature("round-with-shared-plans")
		} else {
			c.Feature("round-fully-cold")
		}
		yield := ri%2 == 1
		if yield {
			var n atomic.Uint64
			verifhook.SetYield(func(site int) {
				if n.Add(1)%3 == 0 {
					time.Sleep(20 * time.Microsecond)
				} else {
					runtime.Gosched()
				}
			})
			c.Feature("round-with-yield-hooks")
		} else {
			verifhook.SetYield(nil)
		}
		before := verifhook.Snapshot()
		type outcome struct {
			g, step, ri int
			kind        string
			got         string
			which       int
		}
		var mu sync.Mutex // taken only AFTER a request finished, to store its outcome
		var outs []outcome
		var seq atomic.Uint64
		var orderHash atomic.Uint64
		start := make(chan struct{})
		var wg sync.WaitGroup
		var panics atomic.Int64
		for g := 0; g < nG; g++ {
			wg.Add(1)
			go func(g int) {
				defer wg.Done()
				gr := c.RNG(3, uint64(ri), uint64(g))
				<-start
				for step := 0; step < opsPer; step++ {
					i := gr.Intn(len(reqs))
					rq := reqs[i]
					var got string
					kind := ""
					which := 0
					x := gr.Intn(100)
					if twoSchemas {
						// few keys, mostly cache traffic, both schemas
						i = gr.Intn(3)
						rq = reqs[i]
						which = gr.Intn(2)
						if x >= 20 && x < 90 {
							x = 50
						}
					}
					func() {
						defer func() {
							if r := recover(); r != nil {
								panics.Add(1)
								got = fmt.Sprintf("PANIC: %v", r)
							}
						}()
						env := envs[which]
						switch {
						case x < 35:
							kind = "Do"
							got = canon(graphql.Do(graphql.Params{Schema: env.Schema, RequestString: rq.text, OperationName: rq.op, VariableValues: rq.vars}))
						case x < 45:
							kind = "Validate"
							if doc, err := harness.Parse(rq.text); err == nil {
								graphql.ValidateDocument(&env.Schema, doc, nil)
							}
						case x < 75:
							kind = "Cache"
							pr := cache.Get(&env.Schema, rq.text, rq.op)
							if pr.Plan == nil {
								got = canon(&graphql.Result{Errors: pr.Errors})
							} else {
								args := map[string]interface{}{}
								for k, v := range rq.vars {
									args[k] = v
								}
								for k, v := range pr.SynthArgs {
									args[k] = v
								}
								got = canon(graphql.ExecutePlan(pr.Plan, graphql.ExecuteParams{Schema: env.Schema, Args: args}))
							}
						case x < 95:
							if p := sharedPlans[i]; p != nil {
								kind = "SharedPlan"
								which, env = 0, envs[0] // the prepared plans belong to the first schema
								got = canon(graphql.ExecutePlan(p, graphql.ExecuteParams{Schema: env.Schema, Args: rq.vars}))
							} else {
								kind = "Do"
								got = canon(graphql.Do(graphql.Params{Schema: env.Schema, RequestString: rq.text, OperationName: rq.op, VariableValues: rq.vars}))
							}
						default:
							kind = "Reset"
							cache.Reset()
						}
					}()
					s := seq.Add(1)
					orderHash.Add(core.HashString(fmt.Sprintf("%d:%d:%s", s, g, kind)))
					mu.Lock()
					outs = append(outs, outcome{g, step, i, kind, got, which})
					mu.Unlock()
				}
			}(g)
		}
		close(start)
		done := make(chan struct{})
		go func() { wg.Wait(); close(done) }()
		// A deadlock is a STATE, not a duration: the round is declared stuck only
		// when every goroutine with a library frame is parked and the set of
		// such goroutines did not change over several samples. Otherwise the
		// round is simply slow (loaded machine) and we keep waiting; the child
		// watchdog is the last resort and its firing is inconclusive.
		stuck := false
	wait:
		for {
			select {
			case <-done:
				break wait
			case <-time.After(60 * time.Second):
				smp := gorou.Query{}.Stable(4, 12)
				if smp.Stable && len(smp.Hits) > 0 && smp.AllParked() {
					c.Violation("deadlock", "a round of concurrent requests does not finish: every goroutine in library code is parked, unchanged over 4 samples", map[string]interface{}{"schema": m.SDL(), "states": smp.States(), "goroutines": gorou.Describe(smp.Hits)})
					stuck = true
					break wait
				}
			}
		}
		if stuck {
			return
		}
		verifhook.SetYield(nil)
		after := verifhook.Snapshot()
		for s := 0; s < verifhook.NumSites; s++ {
			if strings.HasSuffix(verifhook.SiteNames[s], ".build") || strings.HasSuffix(verifhook.SiteNames[s], ".miss") {
				if d := after[s] - before[s]; d >= 2 {
					siteMulti[verifhook.SiteNames[s]]++
				}
			}
		}
		orders[orderHash.Load()] = true
		if panics.Load() > 0 {
			for _, o := range outs {
				if strings.HasPrefix(o.got, "PANIC") {
					c.Violation("panic:concurrent:"+o.kind, o.got, map[string]interface{}{"schema": m.SDL(), "request": reqs[o.ri].text})
					break
				}
			}
		}
		sawEnum, sawAbs := false, false
		var keys []string
		for _, o := range outs {
			c.Eval(1)
			c.Feature("op:" + o.kind)
			if o.got == "" || strings.HasPrefix(o.got, "PANIC") {
				continue
			}
			rq := reqs[o.ri]
			e, a := touches(m, rq.text)
			sawEnum = sawEnum || e
			sawAbs = sawAbs || a
			keys = append(keys, fmt.Sprintf("%d:%d:%s", o.g, o.ri, o.kind))
			if o.got != wants[o.which][o.ri] {
				c.Violation("response-differs-from-solo:"+o.kind, fmt.Sprintf("goroutine %d step %d (%s): response differs from the same request run alone", o.g, o.step, o.kind),
					map[string]interface{}{"schema": m.SDL(), "request": rq.text, "variables": rq.vars, "schema_index": o.which, "concurrent": trunc(o.got), "solo": trunc(wants[o.which][o.ri])})
				break
			}
		}
		if sawEnum || sawAbs {
			sort.Strings(keys)
			c.Nontrivial(core.HashString(m.SDL() + strings.Join(keys, ",")))
		}
		if ri == 0 {
			c.Sample("round", map[string]interface{}{"goroutines": nG, "ops_per_goroutine": opsPer, "requests": len(reqs), "first_request": trunc(reqs[0].text)})
		}
	}
	runtime.GOMAXPROCS(runtime.NumCPU())
	c.FeatureN("distinct-completion-orders", int64(len(orders)))
	names := make([]string, 0, len(siteMulti))
	for k := range siteMulti {
		names = append(names, k)
	}
	sort.Strings(names)
	for _, k := range names {
		c.FeatureN("rounds-with->=2-cold-entries:"+k, siteMulti[k])
	}
}

func min(a, b int) int {
	if a < b {
		return a
	}
	return b
}

func trunc(s string) string {
	if len(s) > 1500 {
		return s[:1500] + "…"
	}
	return s
}
