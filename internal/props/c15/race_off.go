//go:build !race

package c15

const raceEnabled = false
