package c15

import (
	"bytes"
	"encoding/json"
	"errors"
	"fmt"
	"strconv"
	"strings"

	"github.com/graphql-go/graphql"
)

// payload is one source event. ID is unique within the child process, so a
// result names the event it was computed from.
type payload struct {
	ID   string
	Seq  int
	Kind string // ok | ferr | null | panic   (a nil interface is sent for kind "nil")
}

// Event kinds. "nil" (the source delivers a nil interface) is used by the
// randomised schedules only.
var enumKinds = []string{"ok", "ferr", "null", "panic"}
var randKinds = []string{"ok", "ferr", "null", "panic", "nil"}

// docVar is one subscription document of the workload.
type docVar struct {
	Name   string
	Text   string // subscription document (single line)
	QText  string // the same selection as a query, padded so that columns agree
	Key    string // response key of the root field
	Col    int    // column of the root field
	ColSub int    // column of the nested field "kind" (doc "o")
	Vars   map[string]interface{}
	Prefix string // value prefix contributed by the argument
	OpName string // operation to run (documents with several operations)
}

func mkDoc(name, head, field, tail, key string, vars map[string]interface{}, prefix string) *docVar {
	text := head + field + tail
	d := &docVar{Name: name, Text: text, Key: key, Col: len(head) + 1, Vars: vars, Prefix: prefix}
	if i := strings.Index(text, "kind"); i >= 0 {
		d.ColSub = i + 1
	}
	// query twin: replace the keyword, pad with blanks to keep every column
	q := strings.Replace(head, "subscription", "query       ", 1)
	q = strings.Replace(q, " on Subscription ", " on Query        ", 1)
	d.QText = q + field + tail
	return d
}

var docs = []*docVar{
	mkDoc("s", "subscription { ", "s", " }", "s", nil, ""),
	mkDoc("nn", "subscription { ", "nn", " }", "nn", nil, ""),
	mkDoc("o", "subscription { ", "o", " { seq kind } }", "o", nil, ""),
	mkDoc("arg", "subscription S($p: String!) { ", "a: s(p: $p)", " }", "a", map[string]interface{}{"p": "P"}, "P"),
	// variables whose coerced form differs from the caller's: an enum whose
	// internal values are not its names, supplied and defaulted
	mkDoc("enumvar", "subscription S($m: Mode) { ", "a: s(m: $m)", " }", "a", map[string]interface{}{"m": "FAST"}, "<7>"),
	// the root field reached through a fragment spread, an inline fragment and
	// behind directives (the subscribe step collects the root selection itself)
	mkDoc("frag", "subscription { ...F } fragment F on Subscription { ", "s", " }", "s", nil, ""),
	mkDoc("inline", "subscription { ... on Subscription { ", "s", " } }", "s", nil, ""),
	mkDoc("dirs", "subscription S($t: Boolean = true, $f: Boolean = false) { ", "s @include(if: $t) @skip(if: $f)", " }", "s", nil, ""),
	mkDoc("enumdef", "subscription S($m: Mode = SLOW) { ", "a: s(m: $m)", " }", "a", nil, "<slow!>"),
	// several operations, the subscription chosen by name: every event must be
	// executed against that operation, not only the subscribe step
	withOp(mkDoc("multiop", "subscription A { nn } subscription S { ", "s", " } query Z { __typename }", "s", nil, ""), "S"),
	withOp(mkDoc("multiop2", "query Z { __typename } subscription S { ", "s", " } subscription B { nn }", "s", nil, ""), "S"),
}

func withOp(d *docVar, op string) *docVar {
	d.OpName = op
	return d
}

func docByName(n string) *docVar {
	for _, d := range docs {
		if d.Name == n {
			return d
		}
	}
	return docs[0]
}

// Request classes other than "valid".
var failReqs = []string{"syntax", "invalid", "nosubfn", "suberr", "subnil", "subpanic", "subpanicstr", "nonchan", "typed"}

func reqText(req string, d *docVar) string {
	switch req {
	case "syntax":
		return "subscription { s "
	case "invalid":
		return "subscription { s zzz }"
	case "nosubfn":
		return "subscription { nosub }"
	}
	return d.Text
}

const rootKey = "c15run"

func runOf(p graphql.ResolveParams) *run {
	if m, ok := p.Info.RootValue.(map[string]interface{}); ok {
		if r, ok := m[rootKey].(*run); ok {
			return r
		}
	}
	return nil
}

// subscribeFn is the Subscribe resolver of every subscription field. Its
// behaviour is chosen by the running schedule.
func subscribeFn(p graphql.ResolveParams) (interface{}, error) {
	r := runOf(p)
	if r == nil {
		return nil, errors.New("c15: no run attached to the root value")
	}
	args := ""
	if s, ok := p.Args["p"].(string); ok {
		args = "p=" + s
	}
	if m, ok := p.Args["m"]; ok {
		args += fmt.Sprintf("m=<%v>", m)
	}
	r.logEv("subscribe-invoked", 0, args)
	defer r.signalSubscribed()
	switch r.s.Req {
	case "suberr":
		return nil, errors.New("subscribe failed " + r.salt)
	case "subnil":
		return nil, nil
	case "subpanic":
		panic(errors.New("subscribe panicked " + r.salt))
	case "subpanicstr":
		panic("subscribe panicked (string) " + r.salt)
	case "nonchan":
		return &payload{ID: r.salt + "-x", Seq: 0, Kind: "ok"}, nil
	case "typed":
		return make(chan *payload), nil
	}
	return r.src, nil
}

func resolveLeaf(p graphql.ResolveParams) (interface{}, error) {
	pl, ok := p.Source.(*payload)
	if !ok {
		return fmt.Sprintf("src:%T", p.Source), nil
	}
	prefix := ""
	if s, ok := p.Args["p"].(string); ok {
		prefix = s
	}
	if m, ok := p.Args["m"]; ok {
		prefix += fmt.Sprintf("<%v>", m)
	}
	switch pl.Kind {
	case "ferr":
		return nil, errors.New("boom " + pl.ID)
	case "null":
		return nil, nil
	case "panic":
		panic("pan " + pl.ID)
	}
	return prefix + "v" + pl.ID, nil
}

func resolveObj(p graphql.ResolveParams) (interface{}, error) {
	pl, ok := p.Source.(*payload)
	if !ok {
		return nil, nil
	}
	switch pl.Kind {
	case "ferr":
		return nil, errors.New("boom " + pl.ID)
	case "null":
		return nil, nil
	}
	return pl, nil
}

var theSchema graphql.Schema

func init() {
	obj := graphql.NewObject(graphql.ObjectConfig{Name: "Obj", Fields: graphql.Fields{
		"seq": &graphql.Field{Type: graphql.Int, Resolve: func(p graphql.ResolveParams) (interface{}, error) {
			return p.Source.(*payload).Seq, nil
		}},
		"kind": &graphql.Field{Type: graphql.String, Resolve: func(p graphql.ResolveParams) (interface{}, error) {
			pl := p.Source.(*payload)
			if pl.Kind == "panic" {
				return nil, errors.New("kindboom " + pl.ID)
			}
			return pl.Kind, nil
		}},
	}})
	mode := graphql.NewEnum(graphql.EnumConfig{Name: "Mode", Values: graphql.EnumValueConfigMap{
		"FAST": &graphql.EnumValueConfig{Value: 7}, "SLOW": &graphql.EnumValueConfig{Value: "slow!"}}})
	argP := graphql.FieldConfigArgument{"p": &graphql.ArgumentConfig{Type: graphql.String}, "m": &graphql.ArgumentConfig{Type: mode}}
	sub := graphql.Fields{
		"s":     &graphql.Field{Type: graphql.String, Args: argP, Subscribe: subscribeFn, Resolve: resolveLeaf},
		"nn":    &graphql.Field{Type: graphql.NewNonNull(graphql.String), Subscribe: subscribeFn, Resolve: resolveLeaf},
		"o":     &graphql.Field{Type: obj, Subscribe: subscribeFn, Resolve: resolveObj},
		"nosub": &graphql.Field{Type: graphql.String, Resolve: resolveLeaf},
	}
	qf := graphql.Fields{
		"hello": &graphql.Field{Type: graphql.String},
		"s":     &graphql.Field{Type: graphql.String, Args: argP, Resolve: resolveLeaf},
		"nn":    &graphql.Field{Type: graphql.NewNonNull(graphql.String), Resolve: resolveLeaf},
		"o":     &graphql.Field{Type: obj, Resolve: resolveObj},
	}
	var err error
	theSchema, err = graphql.NewSchema(graphql.SchemaConfig{
		Query:        graphql.NewObject(graphql.ObjectConfig{Name: "Query", Fields: qf}),
		Subscription: graphql.NewObject(graphql.ObjectConfig{Name: "Subscription", Fields: sub}),
	})
	if err != nil {
		panic("c15: schema: " + err.Error())
	}
}

// expected is E(e): the response for one event, written down directly from
// the schema above (not computed by the library).
func expected(d *docVar, pl *payload) string {
	q := strconv.Quote
	errAt := func(msg string, col int, path string) string {
		return `{"message":` + q(msg) + `,"locations":[{"line":1,"column":` + strconv.Itoa(col) + `}],"path":[` + path + `]}`
	}
	key := q(d.Key)
	if pl == nil { // nil event: resolvers see an empty map as source
		switch d.Name {
		case "o":
			return `{"data":{"o":null}}`
		default:
			return `{"data":{` + key + `:"src:map[string]interface {}"}}`
		}
	}
	switch d.Name {
	case "o":
		switch pl.Kind {
		case "ferr":
			return `{"data":{"o":null},"errors":[` + errAt("boom "+pl.ID, d.Col, `"o"`) + `]}`
		case "null":
			return `{"data":{"o":null}}`
		case "panic":
			return `{"data":{"o":{"kind":null,"seq":` + strconv.Itoa(pl.Seq) + `}},"errors":[` + errAt("kindboom "+pl.ID, d.ColSub, `"o","kind"`) + `]}`
		}
		return `{"data":{"o":{"kind":` + q(pl.Kind) + `,"seq":` + strconv.Itoa(pl.Seq) + `}}}`
	case "nn":
		switch pl.Kind {
		case "ferr":
			return `{"data":null,"errors":[` + errAt("boom "+pl.ID, d.Col, key) + `]}`
		case "null":
			return `{"data":null,"errors":[` + errAt("Cannot return null for non-nullable field Subscription.nn.", d.Col, key) + `]}`
		case "panic":
			return `{"data":null,"errors":[` + errAt("pan "+pl.ID, d.Col, key) + `]}`
		}
		return `{"data":{` + key + `:` + q("v"+pl.ID) + `}}`
	default: // s, arg
		switch pl.Kind {
		case "ferr":
			return `{"data":{` + key + `:null},"errors":[` + errAt("boom "+pl.ID, d.Col, key) + `]}`
		case "null":
			return `{"data":{` + key + `:null}}`
		case "panic":
			return `{"data":{` + key + `:null},"errors":[` + errAt("pan "+pl.ID, d.Col, key) + `]}`
		}
		return `{"data":{` + key + `:` + q(d.Prefix+"v"+pl.ID) + `}}`
	}
}

// canon re-encodes JSON with sorted keys (encoding/json sorts map keys).
func canon(b []byte) string {
	dec := json.NewDecoder(bytes.NewReader(b))
	dec.UseNumber()
	var v interface{}
	if err := dec.Decode(&v); err != nil {
		return "!" + string(b)
	}
	// The one message of these responses that the LIBRARY words (a null in a
	// non-null position) is compared by its presence, path and location, not by
	// its wording: harness and library side both pass through here.
	if m, ok := v.(map[string]interface{}); ok {
		if errs, ok := m["errors"].([]interface{}); ok {
			for _, e := range errs {
				if em, ok := e.(map[string]interface{}); ok {
					if msg, _ := em["message"].(string); strings.Contains(msg, "non-null") || strings.Contains(msg, "Cannot return null") {
						em["message"] = "<null in a non-null position>"
					}
				}
			}
		}
	}
	out, err := json.Marshal(v)
	if err != nil {
		return "!" + string(b)
	}
	return string(out)
}

func canonResult(r *graphql.Result) string {
	if r == nil {
		return "<nil *Result>"
	}
	b, err := json.Marshal(r)
	if err != nil {
		return "<unmarshalable: " + err.Error() + ">"
	}
	return canon(b)
}

// The response of a request whose context was already cancelled (C16's
// cancelled outcome).
const ctxCanceledResult = `{"data":null,"errors":[{"locations":[],"message":"context canceled"}]}`
