package c15

import (
	"context"
	"encoding/json"
	"fmt"
	"strings"
	"sync"
	"time"

	"github.com/graphql-go/graphql"
	"github.com/graphql-go/graphql/language/ast"
	"github.com/graphql-go/graphql/language/parser"
	"github.com/graphql-go/graphql/language/source"

	"verif/internal/core"
	"verif/internal/mon/gorou"
)

// watchdog bounds every wait of the controller. When it fires and no terminal
// state predicate is observable the schedule is INCONCLUSIVE, never a violation.
const watchdog = 20 * time.Second

// harnessPrefix is the function prefix of this package's goroutines.
const harnessPrefix = "verif/internal/props/c15."

type gate struct {
	ch   chan struct{}
	once sync.Once
}

func newGate() *gate               { return &gate{ch: make(chan struct{})} }
func (g *gate) open()              { g.once.Do(func() { close(g.ch) }) }
func (g *gate) C() <-chan struct{} { return g.ch }

type ev struct {
	Kind string `json:"k"`
	I    int    `json:"i,omitempty"`
	Data string `json:"d,omitempty"`
}

// run is the execution of one schedule.
type run struct {
	c    *core.Child
	s    *sched
	d    *docVar
	id   string
	salt string
	pay  []*payload

	mu  sync.Mutex
	log []ev

	ctx       context.Context
	cancelFn  context.CancelFunc
	cancelled bool

	src          chan interface{}
	ch           chan *graphql.Result
	abort        chan struct{}
	sendGate     []*gate
	sentSig      []*gate
	permitClose  *gate
	closedSig    *gate
	readTok      chan struct{}
	drainSig     *gate
	recvSig      []*gate
	consumerDone *gate
	subscribed   *gate
	wg           sync.WaitGroup

	bad  bool // a verdict (violation / inconclusive) was already emitted for this run
	self int64
}

// state shared by all runs of the child
var (
	leaked      = map[int64]bool{} // library goroutines attributed to an earlier schedule
	nInconcl    int
	astCache    = map[string]*ast.Document{}
	astCacheErr = map[string]error{}
)

func (r *run) logEv(kind string, i int, data string) int {
	r.mu.Lock()
	r.log = append(r.log, ev{Kind: kind, I: i, Data: data})
	n := len(r.log) - 1
	r.mu.Unlock()
	return n
}

func (r *run) signalSubscribed() { r.subscribed.open() }

func (r *run) detail(extra map[string]interface{}) map[string]interface{} {
	r.mu.Lock()
	lg := make([]ev, len(r.log))
	copy(lg, r.log)
	r.mu.Unlock()
	if len(lg) > 120 {
		lg = append(lg[:60:60], lg[len(lg)-60:]...)
	}
	d := map[string]interface{}{"schedule": r.s.String(), "request": reqText(r.s.Req, r.d), "log": lg}
	for k, v := range extra {
		d[k] = v
	}
	return d
}

func (r *run) violation(sig, msg string, extra map[string]interface{}) {
	r.bad = true
	r.c.Violation(sig, msg+" ["+r.s.String()+"]", r.detail(extra))
}

func (r *run) inconclusive(msg string) {
	r.bad = true
	nInconcl++
	r.c.Inconclusive(msg + " [" + r.s.String() + "]")
}

func (r *run) cancel(what string) {
	if r.cancelFn == nil || r.cancelled {
		return
	}
	r.cancelled = true
	r.logEv("cancel", 0, what) // logged BEFORE the context is cancelled
	r.cancelFn()
}

// leakSig names the defect class of a forwarding goroutine that is parked in
// an unguarded channel send after cancellation.
func (r *run) leakSig() string {
	switch r.s.Req {
	case "valid":
		return "leak:forwarder-blocked-in-send"
	case "nonchan", "typed":
		return "defect:single-result-send-ignores-cancel"
	default:
		return "defect:error-result-send-ignores-cancel"
	}
}

func isSubscriptionFrame(f gorou.Frame) bool {
	return strings.HasSuffix(f.File, "/subscription.go")
}

func (r *run) libQ() gorou.Query { return gorou.Query{Exclude: leaked} }

func describe(hits []gorou.Hit) []string { return gorou.Describe(hits) }

func terminalState(st string) bool { return gorou.TerminalState(st) }

// deadlocked reports whether the process is in a state from which the awaited
// signal can never come: every goroutine that belongs to the library or to this
// harness (other than the controller, which is the caller) is parked in a
// channel / select / sync wait, unchanged over three spaced samples. The
// controller is the only goroutine that could open a gate, and it is waiting.
func (r *run) deadlocked(what string) (sig, msg string, extra map[string]interface{}, ok bool) {
	ex := map[int64]bool{r.self: true}
	for id := range leaked {
		ex[id] = true
	}
	lib, mine, samples, ok := gorou.Quiescent(ex, harnessPrefix, 3, 12)
	if !ok {
		return "", "", nil, false
	}
	cls := what
	if i := strings.IndexByte(cls, '('); i >= 0 {
		cls = cls[:i]
	}
	extra = map[string]interface{}{"waiting_for": what, "library_goroutines": describe(lib), "harness_goroutines": describe(mine), "samples": samples}
	if len(lib) == 0 {
		return "stuck:no-library-goroutine:" + cls, "no library goroutine is left but the harness still waits for " + what + " (result channel never closed / result never delivered)", extra, true
	}
	for _, h := range lib {
		if isSubscriptionFrame(h.Frame) && h.G.State == "chan send" && r.cancelled {
			return r.leakSig(), "after cancellation the subscription's goroutine is parked in a channel send that nobody will ever receive (stable over 3 samples)", extra, true
		}
	}
	h := lib[0]
	return "stuck:" + h.G.State + "@" + gorou.ShortFunc(h.Frame.Func) + ":" + cls, "every goroutine is parked and the harness still waits for " + what, extra, true
}

// await waits for a signal that the property guarantees. Pacing uses timers;
// the verdict never does: a violation needs the deadlock predicate, otherwise
// the watchdog yields INCONCLUSIVE.
func (r *run) await(sig <-chan struct{}, what string) bool {
	select {
	case <-sig:
		return true
	default:
	}
	wd := time.NewTimer(watchdog)
	defer wd.Stop()
	tick := 500 * time.Microsecond
	for {
		t := time.NewTimer(tick)
		select {
		case <-sig:
			t.Stop()
			return true
		case <-wd.C:
			t.Stop()
			if !r.bad {
				r.inconclusive("watchdog fired while waiting for " + what + "; no terminal state observable")
			}
			return false
		case <-t.C:
		}
		if tick < 200*time.Millisecond {
			tick *= 2
		}
		if tick < 16*time.Millisecond {
			continue
		}
		if vs, msg, extra, ok := r.deadlocked(what); ok {
			select {
			case <-sig:
				return true
			default:
			}
			if !r.bad { // a run that already has its verdict only needs to get out
				r.violation(vs, msg, extra)
			}
			return false
		}
	}
}

func (r *run) tokenRead() {
	select {
	case r.readTok <- struct{}{}:
	default:
	}
}

// waitParked samples until every library goroutine is parked (atSend: and the
// forwarding goroutine's innermost library frame is in subscription.go, i.e. it
// is no longer inside the per-event Execute). Used only to widen the window of
// a schedule before the next step; never a verdict.
func (r *run) waitParked(atSend bool) {
	q := r.libQ()
	for k := 1; k <= 300; k++ {
		hits := q.Find(gorou.Dump())
		ok := true
		fwd := false
		for _, h := range hits {
			if !h.G.Parked() {
				ok = false
			}
			if isSubscriptionFrame(h.Frame) {
				fwd = true
			}
		}
		if atSend && !fwd {
			ok = false
		}
		if !atSend && len(hits) == 0 && k < 3 {
			ok = false // give a goroutine that was just created a chance to show up
		}
		if ok {
			r.c.Feature("parked-wait:observed")
			return
		}
		gorou.Pause(k)
	}
	r.c.Feature("parked-wait:gave-up")
}

// checkNoReader is the bounded-progress restatement of "after cancellation no
// goroutine started for the subscription remains blocked forever" when the
// consumer has stopped reading by construction: either every library goroutine
// goes away (the deferred close has then run), or the dump shows one parked in a
// channel send - which nobody will ever receive - in >= 3 consecutive samples.
func (r *run) checkNoReader() {
	if r.bad {
		return
	}
	q := r.libQ()
	s := q.Stable(3, 500)
	if len(s.Hits) == 0 {
		r.c.Feature("no-reader:forwarder-exited")
		return
	}
	extra := map[string]interface{}{"library_goroutines": describe(s.Hits), "samples": s.Samples}
	if !s.Stable {
		r.inconclusive("library goroutines neither exited nor settled after cancellation with a stopped consumer: " + strings.Join(s.States(), ","))
		return
	}
	for _, h := range s.Hits {
		if isSubscriptionFrame(h.Frame) && h.G.State == "chan send" {
			r.violation(r.leakSig(), "consumer stopped reading, context cancelled: the subscription's goroutine stays parked in a channel send (stable over 3 samples), so it is blocked forever and the result channel is never closed", extra)
			return
		}
	}
	h := s.Hits[0]
	if terminalState(h.G.State) {
		r.violation("leak:"+h.G.State+"@"+gorou.ShortFunc(h.Frame.Func), "after cancellation with a stopped consumer a library goroutine stays parked (stable over 3 samples)", extra)
		return
	}
	r.inconclusive("library goroutine in state " + h.G.State + " after cancellation with a stopped consumer")
}

func (r *run) producer() {
	defer r.wg.Done()
	for i := range r.pay {
		select {
		case <-r.sendGate[i].C():
		case <-r.abort:
			return
		}
		var v interface{}
		if r.pay[i] != nil {
			v = r.pay[i]
		}
		r.logEv("sending", i+1, "")
		select {
		case r.src <- v:
			r.logEv("sent", i+1, "")
			r.sentSig[i].open()
		case <-r.abort:
			return
		}
	}
	select {
	case <-r.permitClose.C():
	case <-r.abort:
		return
	}
	r.logEv("closing", 0, "") // logged BEFORE the close
	close(r.src)
	r.closedSig.open()
}

func (r *run) consumer() {
	defer r.wg.Done()
	k := 0
	for {
		select {
		case <-r.readTok:
		case <-r.drainSig.C():
		case <-r.abort:
			return
		}
		select {
		case res, ok := <-r.ch:
			if !ok {
				r.logEv("chan-closed", 0, "")
				r.consumerDone.open()
				return
			}
			k++
			r.logEv("recv", k, canonResult(res))
			if k < len(r.recvSig) {
				r.recvSig[k].open()
			}
		case <-r.abort:
			return
		}
	}
}

func parseDoc(text string) (*ast.Document, error) {
	if d, ok := astCache[text]; ok {
		return d, astCacheErr[text]
	}
	d, err := parser.Parse(parser.ParseParams{Source: source.NewSource(&source.Source{Body: []byte(text), Name: "GraphQL request"})})
	astCache[text], astCacheErr[text] = d, err
	return d, err
}

// call invokes the entry point. It returns false when the library panicked.
func (r *run) call() bool {
	text := reqText(r.s.Req, r.d)
	opName := ""
	if text == r.d.Text {
		opName = r.d.OpName
	}
	root := map[string]interface{}{rootKey: r}
	var ctx context.Context
	if !r.s.CtxNil {
		ctx = r.ctx
	}
	r.logEv("call", 0, r.s.Entry)
	panicked := r.c.Guard("panic", r.detail(nil), func() {
		switch r.s.Entry {
		case "Subscribe":
			r.ch = graphql.Subscribe(graphql.Params{Schema: theSchema, RequestString: text, OperationName: opName, RootObject: root, VariableValues: r.d.Vars, Context: ctx})
		default:
			doc, err := parseDoc(text)
			if err != nil {
				panic("c15 harness: document does not parse: " + err.Error())
			}
			// the harness validates itself, as a caller of ExecuteSubscription must
			if vr := graphql.ValidateDocument(&theSchema, doc, nil); !vr.IsValid {
				panic("c15 harness: document is not valid")
			}
			r.ch = graphql.ExecuteSubscription(graphql.ExecuteParams{Schema: theSchema, AST: doc, OperationName: opName, Root: root, Args: r.d.Vars, Context: ctx})
		}
	})
	if panicked {
		r.bad = true
		return false
	}
	if r.ch == nil {
		r.violation("nil-result-channel", "the entry point returned a nil channel", nil)
		return false
	}
	return true
}

func (r *run) cutHere() {
	s := r.s
	if s.Parked {
		r.waitParked(s.S > s.R)
	}
	if s.Cancel {
		r.cancel("cancel")
	}
	r.post()
}

func (r *run) post() {
	s := r.s
	if s.PostSend {
		for _, g := range r.sendGate {
			g.open()
		}
	}
	if s.PostClose {
		r.permitClose.open()
	}
	if s.Cancel && !s.PostRead {
		r.checkNoReader()
	}
}

func (r *run) flow() {
	s := r.s
	n := len(s.Kinds)
	valid := s.Req == "valid"
	if s.Cut == "pre" {
		r.post()
		return
	}
	if valid && !r.await(r.subscribed.C(), "subscribe-invoked") {
		return
	}
	for i := 1; i <= n; i++ {
		if s.Cut == "at" && s.S == i-1 && s.R == i-1 {
			r.cutHere()
			return
		}
		pendingCut := (s.Cut == "at" && s.S == i && s.R == i-1) || (s.Cut == "closed" && s.R == n-1 && i == n)
		mode := s.Mode[i-1]
		if mode == 'p' && !pendingCut {
			r.tokenRead() // the consumer waits first
		}
		r.sendGate[i-1].open()
		if !r.await(r.sentSig[i-1].C(), fmt.Sprintf("sent(%d)", i)) {
			return
		}
		if pendingCut {
			if s.Cut == "closed" {
				r.permitClose.open()
				if !r.await(r.closedSig.C(), "source-closed") {
					return
				}
			}
			r.cutHere()
			return
		}
		if mode == 'k' {
			r.waitParked(true)
		}
		if mode != 'p' {
			r.tokenRead()
		}
		if !r.await(r.recvSig[i].C(), fmt.Sprintf("recv(%d)", i)) {
			return
		}
	}
	switch s.Cut {
	case "at":
		r.cutHere()
	case "closed":
		r.permitClose.open()
		if !r.await(r.closedSig.C(), "source-closed") {
			return
		}
		if s.R == n+1 {
			r.tokenRead()
			if !r.await(r.consumerDone.C(), "close-observed") {
				return
			}
		}
		r.cutHere()
	case "none":
		if s.Close {
			r.permitClose.open()
			if !r.await(r.closedSig.C(), "source-closed") {
				return
			}
		}
		if s.Close || !valid {
			if !valid && s.Mode == "s" {
				r.waitParked(false)
			}
			r.drainSig.open()
			r.await(r.consumerDone.C(), "close-observed")
		}
	}
}

func (r *run) teardown() {
	if r.ch == nil {
		close(r.abort)
		return
	}
	if r.s.CtxNil {
		for _, g := range r.sendGate {
			g.open()
		}
		r.permitClose.open()
	} else {
		r.cancel("teardown")
	}
	r.drainSig.open()
	r.await(r.consumerDone.C(), "close-observed")
	close(r.abort)
	done := make(chan struct{})
	go func() { r.wg.Wait(); close(done) }()
	wd := time.NewTimer(watchdog)
	select {
	case <-done:
	case <-wd.C:
		if !r.bad {
			r.inconclusive("harness goroutines did not exit at teardown")
		}
	}
	wd.Stop()
	// settlement: no goroutine of the library survives
	q := r.libQ()
	s := q.Stable(3, 500)
	if len(s.Hits) == 0 {
		return
	}
	for _, h := range s.Hits {
		leaked[h.G.ID] = true
	}
	if r.bad {
		return
	}
	extra := map[string]interface{}{"library_goroutines": describe(s.Hits), "samples": s.Samples}
	if !s.Stable {
		r.inconclusive("library goroutines still changing after settlement: " + strings.Join(s.States(), ","))
		return
	}
	h := s.Hits[0]
	r.violation("leak:"+h.G.State+"@"+gorou.ShortFunc(h.Frame.Func), "a goroutine of the library survives settlement (channel closed / context cancelled, consumer drained)", extra)
}

type shape struct {
	Data   interface{}   `json:"data"`
	Errors []interface{} `json:"errors"`
}

// oracle is the history checker; it runs on the log after settlement.
func (r *run) oracle() {
	if r.bad {
		return
	}
	s := r.s
	n := len(s.Kinds)
	r.mu.Lock()
	lg := r.log
	r.mu.Unlock()
	cancelIdx, closingIdx, closeObs := -1, -1, -1
	type rec struct {
		idx  int
		data string
	}
	var results []rec
	sentIdx := map[int]int{}
	nsub := 0
	for i, e := range lg {
		switch e.Kind {
		case "subscribe-invoked":
			nsub++
		case "cancel":
			if cancelIdx < 0 {
				cancelIdx = i
			}
		case "closing":
			closingIdx = i
		case "chan-closed":
			closeObs = i
		case "recv":
			results = append(results, rec{i, e.Data})
		case "sending":
			sentIdx[e.I] = i
		}
	}
	m := len(results)
	r.c.FeatureN("results-received", int64(m))
	r.c.Feature(fmt.Sprintf("subscribe-resolver-invocations:%d", nsub))
	if closeObs < 0 {
		r.violation("not-closed", "the consumer never observed the result channel being closed", nil)
		return
	}
	cancelBefore := func(i int) bool { return cancelIdx >= 0 && cancelIdx < i }

	if s.Req != "valid" {
		if m > 1 {
			r.violation("fail-request:"+s.Req+":results>1", fmt.Sprintf("a request that cannot be subscribed delivered %d results", m), nil)
			return
		}
		if m == 0 {
			if cancelBefore(closeObs) {
				r.c.DontCare("fail-request:cancelled-before-delivery")
				return
			}
			r.violation("defect:fail-request-no-result:"+s.Req, "a request that fails to subscribe delivered no result before the channel was closed (no cancellation before the close was observed)", nil)
			return
		}
		var sh shape
		json.Unmarshal([]byte(results[0].data), &sh)
		switch s.Req {
		case "nonchan", "typed":
			if sh.Data != nil {
				r.c.DontCare("subscribe-returned-non-stream:delivered-as-single-event")
			} else {
				r.c.DontCare("subscribe-returned-non-stream:error-result")
			}
		default:
			if sh.Data != nil || len(sh.Errors) == 0 {
				r.violation("fail-request:"+s.Req+":shape", "the single result of a failed request must carry errors and no data: "+results[0].data, nil)
				return
			}
			r.c.Feature("fail-request:one-error-result-then-close")
		}
		return
	}

	// valid request: per-index equality == prefix, no duplicates, no reordering, no loss before the cut
	exp := make([]string, n)
	for i := 0; i < n; i++ {
		exp[i] = canon([]byte(expected(r.d, r.pay[i])))
	}
	for k, res := range results {
		if k >= n {
			r.violation("history:spurious-result", fmt.Sprintf("result %d received but only %d events exist: %s", k+1, n, res.data), nil)
			return
		}
		if si, ok := sentIdx[k+1]; !ok || si > res.idx {
			r.violation("history:result-before-event", fmt.Sprintf("result %d received before event %d was offered to the source", k+1, k+1), nil)
			return
		}
		if res.data == exp[k] {
			if cancelBefore(res.idx) {
				r.c.Feature("result-delivered-after-cancel")
			}
			continue
		}
		if cancelBefore(res.idx) && res.data == ctxCanceledResult {
			r.c.DontCare("post-cancel-result-is-context-error")
			continue
		}
		sig := "history:wrong-result"
		for j := 0; j < n; j++ {
			if j != k && res.data == exp[j] {
				if j < k {
					sig = "history:duplicate-or-reordered"
				} else {
					sig = "history:lost-event"
				}
				break
			}
		}
		r.violation(sig, fmt.Sprintf("result %d is not the response for event %d", k+1, k+1), map[string]interface{}{"expected": exp[k], "observed": res.data, "index": k + 1})
		return
	}
	if !cancelBefore(closeObs) {
		// closed without any cancellation: the source must have closed, and
		// everything it delivered must have been forwarded
		if closingIdx < 0 || closingIdx > closeObs {
			r.violation("closed-without-cause", "the result channel was closed although the source was not closed and the context not cancelled", nil)
			return
		}
		if m != n {
			r.violation("history:lost-results", fmt.Sprintf("source closed without cancellation after %d events but only %d results were delivered", n, m), nil)
			return
		}
		r.c.Feature("complete-stream-then-close")
	} else {
		r.c.Feature("prefix-then-close")
	}
}

var caseCounter int

func runOne(c *core.Child, s *sched, id string) {
	caseCounter++
	r := &run{c: c, s: s, d: docByName(s.Doc), id: id, salt: fmt.Sprintf("%d.%s", c.Batch, strings.ReplaceAll(id, "/", "")), self: gorou.CurID()}
	n := len(s.Kinds)
	for i, k := range s.Kinds {
		if k == "nil" {
			r.pay = append(r.pay, nil)
		} else {
			r.pay = append(r.pay, &payload{ID: fmt.Sprintf("%s-%d", r.salt, i+1), Seq: i + 1, Kind: k})
		}
		r.sendGate = append(r.sendGate, newGate())
		r.sentSig = append(r.sentSig, newGate())
	}
	for i := 0; i <= n+1; i++ {
		r.recvSig = append(r.recvSig, newGate())
	}
	r.src = make(chan interface{})
	r.abort = make(chan struct{})
	r.permitClose, r.closedSig, r.drainSig, r.consumerDone, r.subscribed = newGate(), newGate(), newGate(), newGate(), newGate()
	r.readTok = make(chan struct{}, n+4)
	if !s.CtxNil {
		r.ctx, r.cancelFn = context.WithCancel(context.Background())
	}
	if s.Cut == "pre" {
		r.cancel("cancel")
	}
	c.Eval(1)
	if r.call() {
		r.wg.Add(2)
		go r.producer()
		go r.consumer()
		r.flow()
	}
	r.teardown()
	if r.cancelFn != nil {
		r.cancelFn()
	}
	r.oracle()

	c.Feature("class:" + s.class())
	c.Feature("req:" + s.Req)
	c.Feature("entry:" + s.Entry)
	c.Feature("doc:" + s.Doc)
	c.Feature(fmt.Sprintf("events:%d", n))
	if s.CtxNil {
		c.Feature("ctx:nil")
	}
	if !r.bad {
		// non-trivial: the request reached the library and the stream was
		// observed to the end (close seen by the consumer)
		c.Nontrivial(core.HashString(s.String()))
		c.Sample(s.class(), map[string]interface{}{"schedule": s.String(), "log": r.detail(nil)["log"]})
	}
}
