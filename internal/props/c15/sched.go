package c15

import (
	"fmt"
	"strings"

	"verif/internal/core"
)

// sched is one schedule: what the producer, the consumer and the canceller do,
// and in which logical order. Everything is sequenced by gates; see run.go.
//
// The state of a stream before the cut is (S, R): S events were taken from the
// source by the library (the producer's send completed) and R results were
// received by the consumer, with R <= S <= R+1 because the result channel is
// unbuffered and results are produced one at a time.
type sched struct {
	Entry string   // Subscribe | ExecuteSubscription
	Req   string   // valid | syntax | invalid | nosubfn | suberr | subnil | subpanic | subpanicstr | nonchan | typed
	Doc   string   // document variant
	Kinds []string // one per source event
	// Mode has one letter per event, describing how an event that is fully
	// delivered before the cut is consumed:
	//   p  prompt: the consumer is already waiting when the event is sent
	//   s  slow: the consumer starts reading only after the producer's send completed
	//   k  like s, and additionally the library's forwarding goroutine has been
	//      seen parked at its send (goroutine dump) before the consumer reads
	Mode string
	// Cut is where the normal flow stops:
	//   pre     the context is cancelled before the call
	//   at      in state (S,R): R==S "between events", S==R+1 "result S pending at the send"
	//   closed  all events sent, source closed; R==n-1: last result still pending,
	//           R==n: all results received, close not yet observed, R==n+1: close observed
	//   none    no cut: everything is delivered (then the source closes if Close)
	Cut  string
	S, R int
	// Cancel: the context is cancelled at the cut (otherwise the consumer just
	// stops reading there and nothing else happens until teardown).
	Cancel bool
	// After the cut:
	PostRead  bool // the consumer keeps reading (until it observes close)
	PostSend  bool // the producer keeps offering the remaining events
	PostClose bool // the producer closes the source (after its remaining sends)
	Close     bool // Cut none: the source is closed after the last event
	CtxNil    bool // Params.Context is nil (no cancellation possible)
	// Parked: at the cut, wait until every library goroutine is parked before cancelling.
	Parked bool
}

func (s *sched) String() string {
	b := func(v bool) string {
		if v {
			return "1"
		}
		return "0"
	}
	return fmt.Sprintf("%s req=%s doc=%s ev=[%s] mode=%s cut=%s(%d,%d) cancel=%s parked=%s post[read=%s send=%s close=%s] close=%s ctxnil=%s",
		s.Entry, s.Req, s.Doc, strings.Join(s.Kinds, ","), s.Mode, s.Cut, s.S, s.R, b(s.Cancel), b(s.Parked), b(s.PostRead), b(s.PostSend), b(s.PostClose), b(s.Close), b(s.CtxNil))
}

// class is the schedule class used for evidence features.
func (s *sched) class() string {
	c := s.Cut
	if s.Cut == "at" {
		if s.S == s.R {
			c = "at:between"
		} else {
			c = "at:pending"
		}
	}
	if s.Cut == "closed" {
		switch {
		case s.R < len(s.Kinds):
			c = "closed:pending"
		case s.R == len(s.Kinds):
			c = "closed:unobserved"
		default:
			c = "closed:observed"
		}
	}
	if s.Cut != "none" {
		if s.Cancel {
			c += "+cancel"
		} else {
			c += "+stall"
		}
		if s.Cancel && !s.PostRead {
			c += "+consumer-stopped"
		}
	}
	return c
}

var entries = []string{"Subscribe", "ExecuteSubscription"}

// shapes enumerates every schedule shape for n events (valid requests).
func shapes(n int) []sched {
	var out []sched
	bools := []bool{false, true}
	modes := []string{"p", "s", "k"}
	add := func(s sched, fullPairs int) {
		ms := modes
		if fullPairs == 0 {
			ms = modes[:1] // the mode only matters for events delivered before the cut
		}
		for _, m := range ms {
			for _, e := range entries {
				t := s
				t.Entry = e
				t.Req = "valid"
				t.Mode = strings.Repeat(m, n)
				out = append(out, t)
			}
		}
	}
	// pre-cancelled context
	for _, pr := range bools {
		for _, pc := range bools {
			for _, ps := range bools {
				if ps && n == 0 {
					continue
				}
				add(sched{Cut: "pre", Cancel: true, PostRead: pr, PostSend: ps, PostClose: pc}, 0)
			}
		}
	}
	// no cut
	for _, cl := range bools {
		add(sched{Cut: "none", Close: cl}, n)
	}
	// cut in state (S,R)
	for r := 0; r <= n; r++ {
		for _, s := range []int{r, r + 1} {
			if s > n {
				continue
			}
			for _, parked := range bools {
				if parked && s == r && r > 0 {
					continue // "parked" only distinguishes pending results and the initial state
				}
				for _, pr := range bools {
					for _, pc := range bools {
						for _, ps := range bools {
							if ps && s >= n {
								continue
							}
							add(sched{Cut: "at", S: s, R: r, Cancel: true, Parked: parked, PostRead: pr, PostSend: ps, PostClose: pc}, r)
						}
					}
				}
			}
			add(sched{Cut: "at", S: s, R: r, Cancel: false}, r)
		}
	}
	// cut after the source closed
	for _, r := range []int{n - 1, n, n + 1} {
		if r < 0 {
			continue
		}
		full := r
		if full > n {
			full = n
		}
		for _, pr := range bools {
			add(sched{Cut: "closed", S: n, R: r, Cancel: true, PostRead: pr}, full)
		}
		if r <= n {
			add(sched{Cut: "closed", S: n, R: r, Cancel: false}, full)
		}
	}
	return out
}

// kindSeq returns the idx-th sequence of length n over kinds (base-k digits).
func kindSeq(kinds []string, n, idx int) []string {
	out := make([]string, n)
	for i := 0; i < n; i++ {
		out[i] = kinds[idx%len(kinds)]
		idx /= len(kinds)
	}
	return out
}

func pow(b, e int) int {
	r := 1
	for i := 0; i < e; i++ {
		r *= b
	}
	return r
}

// enumerated builds the fixed schedule list. The list of *shapes* does not
// depend on the seed; the seed rotates which document and which payload-kind
// sequence each shape is paired with. Two passes pair every shape with two
// different (document, kinds) choices; across a pass every kind sequence of
// each length 0..4 occurs (there are more shapes of length n than kind
// sequences of length n, for every n >= 1).
func enumerated(seed uint64) []sched {
	var out []sched
	off := int(seed % 9973)
	for pass := 0; pass < 2; pass++ {
		for n := 0; n <= 4; n++ {
			sh := shapes(n)
			nseq := pow(len(enumKinds), n)
			for i, s := range sh {
				s.Kinds = kindSeq(enumKinds, n, (i+off+pass*(nseq/2+1))%nseq)
				s.Doc = docs[(i/nseq+i+off+pass)%len(docs)].Name
				out = append(out, s)
			}
		}
	}
	// failing / degenerate requests
	for _, req := range failReqs {
		for _, e := range entries {
			if e == "ExecuteSubscription" && (req == "syntax" || req == "invalid") {
				continue // there is no document to hand to ExecuteSubscription
			}
			base := sched{Entry: e, Req: req, Doc: "s"}
			for _, pr := range []bool{false, true} {
				t := base
				t.Cut, t.Cancel, t.PostRead = "pre", true, pr
				out = append(out, t)
				for _, parked := range []bool{false, true} {
					t = base
					t.Cut, t.Cancel, t.PostRead, t.Parked = "at", true, pr, parked
					out = append(out, t)
				}
			}
			t := base
			t.Cut, t.Cancel = "at", false // never reads, no cancellation until teardown
			out = append(out, t)
			for _, m := range []string{"p", "s"} {
				t = base
				t.Cut, t.Mode = "none", m
				out = append(out, t)
			}
		}
	}
	// nil context: no cancellation is possible; the source must close
	for n := 0; n <= 3; n++ {
		for _, e := range entries {
			for _, m := range []string{"p", "s"} {
				nseq := pow(len(enumKinds), n)
				s := sched{Entry: e, Req: "valid", Doc: docs[(n+off)%len(docs)].Name, Kinds: kindSeq(enumKinds, n, (off+n*7)%nseq), Mode: strings.Repeat(m, n), Cut: "none", Close: true, CtxNil: true}
				out = append(out, s)
				if n > 0 {
					t := s
					t.Cut, t.S, t.R, t.Close = "at", 1, 0, false // consumer stalls with a pending result; teardown drains
					out = append(out, t)
				}
			}
		}
	}
	return out
}

// randomSched draws one longer schedule.
func randomSched(r *core.RNG, maxN int) sched {
	n := r.Range(0, maxN)
	if r.Chance(50) && maxN > 8 {
		n = r.Range(0, 8)
	}
	s := sched{Entry: entries[r.Intn(2)], Req: "valid", Doc: docs[r.Intn(len(docs))].Name}
	var mode strings.Builder
	for i := 0; i < n; i++ {
		s.Kinds = append(s.Kinds, randKinds[r.Intn(len(randKinds))])
		mode.WriteByte("pppssk"[r.Intn(6)])
	}
	s.Mode = mode.String()
	switch x := r.Intn(100); {
	case x < 8:
		s.Cut, s.Cancel = "pre", true
	case x < 25:
		s.Cut, s.Close = "none", r.Chance(70)
	case x < 85:
		s.Cut = "at"
		s.R = r.Range(0, n)
		s.S = s.R
		if s.R < n && r.Bool() {
			s.S = s.R + 1
		}
		s.Cancel = r.Chance(85)
	default:
		s.Cut, s.S = "closed", n
		s.R = r.Range(n-1, n+1)
		if s.R < 0 {
			s.R = 0
		}
		s.Cancel = s.R > n || r.Chance(80)
	}
	if s.Cut != "none" && s.Cancel {
		s.PostRead = r.Chance(60)
		s.Parked = r.Chance(30) && (s.Cut == "at")
		if s.Cut == "pre" || s.Cut == "at" {
			s.PostSend = s.S < n && r.Bool()
			s.PostClose = r.Bool()
		}
	}
	if s.Cut == "none" && s.Close && r.Chance(10) {
		s.CtxNil = true
	}
	return s
}
