// Package c15 is the runtime monitor for property C15: a subscription delivers
// one correct result per source event, in order, and then closes; failed
// requests deliver exactly one error result; after cancellation no goroutine of
// the subscription stays blocked forever. See README.md.
package c15

import (
	"context"
	"fmt"
	"strings"
	"time"

	"github.com/graphql-go/graphql"

	"verif/internal/core"
	"verif/internal/mon/gorou"
)

func init() {
	core.Register(&core.Check{
		ID:    "C15",
		Level: "fault_enumeration", Race: true,
		Technique: "trace monitor over enumerated producer/consumer/cancellation schedules of the real graphql.Subscribe / graphql.ExecuteSubscription: " +
			"harness-owned source channel, logical gates for every step, history checker on unique payloads (prefix / no duplicate / no reorder / no loss / " +
			"one error result for failed requests / close observed), goroutine-dump state predicates for the liveness clause",
		Rule: "case = one schedule (entry point, request class, document, payload-kind sequence, consumer mode, cut state (S events taken, R results read), cancel-or-stall, " +
			"post-cut behaviour of producer/consumer/source close, nil context); distinct = hash of the schedule description string; non-trivial = the request reached the library " +
			"and the consumer observed the stream to its end (close seen) with the history checker applied. Enumerated: every shape for 0..4 events x 2 entry points x 3 consumer modes, " +
			"paired (2 passes) with documents and with every payload-kind sequence of its length; 9 failing/degenerate request classes x cancellation points x consumer behaviours; " +
			"nil-context schedules; then seeded random schedules (<=8 events quick, <=30 thorough).",
		Assumptions: []string{
			"E(e), the expected response per event, is written down by the harness from its own schema and cross-checked once per child against graphql.Execute with that event as root value (subscription document and an equivalent query)",
			"a result received after the cancellation was issued may be the context-error response instead of E(e) (C16's cancelled outcome of the per-event execution): don't-care class",
			"what a Subscribe resolver returning a non-channel or a channel of another element type must produce is not stated by the property: exactly one result then close is required, its content is a don't-care class",
			"liveness is decided by state predicates on parsed goroutine dumps (goroutine parked in chan send with no receiver; whole-process deadlock), a watchdog without such a predicate is INCONCLUSIVE",
			"resolvers of the per-event execution never block (that is C16's subject)",
		},
		Batches: func(tier string) int {
			if tier == "thorough" {
				return 16
			}
			return 8
		},
		Run:          runBatch,
		ChildTimeout: func(tier string) time.Duration { return 20 * time.Minute },
		MinEvals: func(tier string) int {
			if tier == "thorough" {
				return 50000
			}
			return 2500
		},
	})
}

// selfCheck compares E(e) as written by the harness with what the library
// computes for "executing the subscription's selection with that event as root
// value", for every document x payload kind.
func selfCheck(c *core.Child) {
	if !c.Begin("selfcheck") {
		return
	}
	for _, d := range docs {
		sdoc, err1 := parseDoc(d.Text)
		qdoc, err2 := parseDoc(d.QText)
		if err1 != nil || err2 != nil {
			c.Violation("harness:document", "harness document does not parse: "+d.Text, nil)
			continue
		}
		for i, k := range randKinds {
			var pl *payload
			var root interface{}
			if k != "nil" {
				pl = &payload{ID: fmt.Sprintf("sc-%s-%d", d.Name, i), Seq: i + 1, Kind: k}
				root = pl
			}
			want := canon([]byte(expected(d, pl)))
			got1 := canonResult(graphql.Execute(graphql.ExecuteParams{Schema: theSchema, AST: sdoc, OperationName: d.OpName, Root: root, Args: d.Vars, Context: context.Background()}))
			got2 := canonResult(graphql.Execute(graphql.ExecuteParams{Schema: theSchema, AST: qdoc, OperationName: d.OpName, Root: root, Args: d.Vars, Context: context.Background()}))
			got2 = strings.ReplaceAll(got2, "non-nullable field Query.", "non-nullable field Subscription.")
			c.Eval(2)
			if got1 != want || got2 != want {
				c.Violation("crosscheck:"+d.Name+":"+k, "the harness's expected response differs from graphql.Execute with the event as root value",
					map[string]interface{}{"doc": d.Text, "kind": k, "harness": want, "execute_subscription_doc": got1, "execute_query_doc": got2})
			}
		}
	}
}

// pollRaces turns race-detector reports that appeared in this child's stderr
// since the last call into violations of the case that just ran.
func pollRaces(c *core.Child, rl *gorou.RaceLog) {
	for _, rep := range rl.Poll() {
		txt := rep.Text
		if len(txt) > 6000 {
			txt = txt[:6000]
		}
		if rep.HarnessOnly {
			c.Violation("harness-race:"+rep.Sig, "data race between two harness accesses (harness bug, not a library violation)", map[string]interface{}{"report": txt})
		} else {
			c.Violation("race:"+rep.Sig, "the race detector reported a data race involving library code during a subscription schedule", map[string]interface{}{"report": txt})
		}
	}
}

func runBatch(c *core.Child) {
	rl := gorou.OpenRaceLog(c.OutDir, c.Batch)
	if raceEnabled {
		c.Feature("race-detector:on")
	}
	if c.Batch == 0 || c.Only == "selfcheck" {
		selfCheck(c)
	}
	list := enumerated(c.Seed)
	for idx := range list {
		if idx%c.NBatches != c.Batch {
			continue
		}
		id := fmt.Sprintf("e/%d", idx)
		if !c.Begin(id) {
			continue
		}
		runOne(c, &list[idx], id)
		pollRaces(c, rl)
		if stopBatch(c) {
			return
		}
	}
	nrand := c.Scale(800, 100800)
	maxN := c.Scale(8, 30)
	for idx := 0; idx < nrand; idx++ {
		if idx%c.NBatches != c.Batch {
			continue
		}
		id := fmt.Sprintf("r/%d", idx)
		if !c.Begin(id) {
			continue
		}
		s := randomSched(core.NewRNG(c.Seed).Derive(core.HashString("C15/random"), uint64(idx)), maxN)
		c.Feature("random-schedules")
		runOne(c, &s, id)
		pollRaces(c, rl)
		if stopBatch(c) {
			return
		}
	}
}

// stopBatch ends a batch early when the tree is so broken that continuing
// would only repeat the same report (the run is a failure either way).
func stopBatch(c *core.Child) bool {
	if nInconcl >= 5 {
		c.Inconclusive("batch stopped after 5 inconclusive schedules")
		return true
	}
	return c.Violations() >= 60
}
