package c20

// The recursive-fragment family (internal/gen/recfam) and the subscription
// route: two places where the parameters of a resolver invocation are built
// by code other than the planner's common path.

import (
	"context"
	"fmt"

	"github.com/graphql-go/graphql"

	"verif/internal/build"
	"verif/internal/core"
	"verif/internal/gen/recfam"
	"verif/internal/harness"
	"verif/internal/model"
	"verif/internal/ref/exec"
	"verif/internal/ref/syntax"
)

func recursiveFamily(c *core.Child) {
	m := recfam.Model()
	env, err := build.Build(m, 79)
	if err != nil {
		c.Violation("harness:schema-build", err.Error(), nil)
		return
	}
	idx := 0
	for L := 1; L <= 3; L++ {
		for k := 0; k < recfam.Count(L); k++ {
			idx++
			if idx%c.NBatches != c.Batch {
				continue
			}
			if c.Quick() && L == 3 && k%4 != int(c.Seed%4) {
				continue
			}
			id := fmt.Sprintf("rec/%d/%d", L, k)
			if !c.Begin(id) {
				continue
			}
			for _, text := range recfam.Texts(L, k) {
				docAST, perr := syntax.Parse([]byte(text))
				if perr != nil {
					c.Violation("gen:noparse", perr.Msg, text)
					continue
				}
				astDoc, lerr := harness.Parse(text)
				if lerr != nil {
					continue
				}
				if vr := graphql.ValidateDocument(&env.Schema, astDoc, nil); !vr.IsValid {
					continue
				}
				rq := reqSpec{token: "tok-" + id}
				exp := exec.Execute(m, docAST, "", nil, nil, env.Seed)
				root := map[string]interface{}{"__root": "root-" + rq.token}
				ctx := build.WithToken(context.Background(), rq.token)
				env.SetOutcomes(nil)
				env.Log.Reset()
				if c.Guard("panic:Do", text, func() {
					graphql.Do(graphql.Params{Schema: env.Schema, RequestString: text, Context: ctx, RootObject: root})
				}) {
					continue
				}
				c.Eval(1)
				c.Feature("recursive-family-case")
				if probs := deepCompare(env, exp, env.Log.Snapshot(), rq, docAST, "root-"+rq.token); len(probs) > 0 {
					c.Violation("params:recursive-family", probs[0], map[string]interface{}{"document": text, "problems": probs})
				}
				if plan, err := graphql.PlanQuery(&env.Schema, astDoc, ""); err == nil {
					for rep := 0; rep < 2; rep++ {
						var r *harness.Run
						if c.Guard("panic:ExecutePlan", text, func() { r = harness.ExecutePlan(env, plan, nil, nil, ctx, root) }) {
							break
						}
						c.Eval(1)
						if probs := deepCompare(env, exp, r.Events, rq, docAST, "root-"+rq.token); len(probs) > 0 {
							c.Violation("params:recursive-family", "ExecutePlan: "+probs[0], map[string]interface{}{"document": text, "problems": probs, "execution": rep})
						}
					}
				}
				if len(exp.Invocations) >= 3 {
					c.Nontrivial(core.HashString("rec\x00" + text))
				}
			}
		}
	}
}

// subscribeRoute: the Subscribe function of a subscription root field is a
// resolver too: it must receive the coerced arguments of the field, the
// caller's context and root value, and an info naming the field, its return
// type, the subscription type as parent, the path, the operation and the
// coerced variables.
func subscribeRoute(c *core.Child) {
	N := model.Named
	e := &model.TypeDef{Kind: model.Enum, Name: "Unit", Values: []*model.EnumVal{{Name: "SECOND", Internal: 1000}, {Name: "MINUTE", Internal: "m"}}}
	in := &model.TypeDef{Kind: model.InputObject, Name: "Opt", InputFields: []*model.InputDef{{Name: "n", Type: N("Int"), HasDefault: true, Default: 7}, {Name: "u", Type: N("Unit")}}}
	args := []*model.InputDef{{Name: "step", Type: N("Int"), HasDefault: true, Default: 5}, {Name: "unit", Type: N("Unit")}, {Name: "tags", Type: model.ListOf(N("String"))}, {Name: "opt", Type: N("Opt")}}
	m := &model.Schema{Query: "Q", Subscription: "S", Types: []*model.TypeDef{e, in,
		{Kind: model.Object, Name: "Q", Fields: []*model.FieldDef{{Name: "q", Type: N("Int")}}},
		{Kind: model.Object, Name: "S", Fields: []*model.FieldDef{{Name: "tick", Type: N("Int"), Args: args}, {Name: "other", Type: N("String"), Args: args}}},
	}}
	m.Reindex()
	env, err := build.Build(m, 80)
	if err != nil {
		c.Violation("harness:schema-build", err.Error(), nil)
		return
	}
	type tc struct {
		text string
		vars map[string]interface{}
		want string // canonical coerced argument map
		key  string
	}
	cases := []tc{
		{`subscription { tick }`, nil, `{step:int(5)}`, "tick"},
		{`subscription { t: tick(step: 2, unit: MINUTE, tags: "a") }`, nil, `{step:int(2),tags:["a"],unit:"m"}`, "t"},
		{`subscription S($u: Unit = SECOND, $t: [String], $s: Int) { tick(unit: $u, tags: $t, step: $s) }`, map[string]interface{}{"t": "x"}, `{step:int(5),tags:["x"],unit:int(1000)}`, "tick"},
		{`subscription S($u: Unit, $o: Opt) { other(unit: $u, opt: $o) }`, map[string]interface{}{"u": "MINUTE", "o": map[string]interface{}{"u": "SECOND"}}, `{opt:{n:int(7),u:int(1000)},step:int(5),unit:"m"}`, "other"},
		{`subscription S($n: Int) { other(opt: {n: $n, u: MINUTE}) }`, map[string]interface{}{"n": 3}, `{opt:{n:int(3),u:"m"},step:int(5)}`, "other"},
		{`subscription A { tick } subscription B { b: other(step: 1) }`, nil, `{step:int(1)}`, "b"},
	}
	for i, t := range cases {
		id := fmt.Sprintf("subscribe/%d", i)
		if !c.Begin(id) {
			continue
		}
		op := ""
		if i == len(cases)-1 {
			op = "B"
		}
		token := "tok-" + id
		ctx := build.WithToken(context.Background(), token)
		root := map[string]interface{}{"__root": "root-" + token}
		env.SetOutcomes(nil)
		env.Log.Reset()
		var results []*graphql.Result
		if c.Guard("panic:Subscribe", t.text, func() {
			for r := range graphql.Subscribe(graphql.Params{Schema: env.Schema, RequestString: t.text, OperationName: op, VariableValues: t.vars, Context: ctx, RootObject: root}) {
				results = append(results, r)
				if len(results) > 8 {
					break
				}
			}
		}) {
			continue
		}
		c.Eval(1)
		c.Feature("subscribe-route")
		c.Nontrivial(core.HashString("sub\x00" + t.text))
		info := map[string]interface{}{"document": t.text, "variables": t.vars}
		bad := func(msg string) { c.Violation("params:subscribe", msg, info) }
		var subs []build.Event
		for _, e := range env.Log.Snapshot() {
			if e.Kind == "subscribe" {
				subs = append(subs, e)
			}
		}
		if len(subs) != 1 {
			bad(fmt.Sprintf("%d Subscribe invocations, want 1 (results %d)", len(subs), len(results)))
			continue
		}
		p := subs[0].Params
		if got := harness.CanonArgs(subs[0].Args); got != t.want {
			bad(fmt.Sprintf("Subscribe received args %s, the coerced arguments are %s", got, t.want))
		}
		if build.Token(p.Context) != token {
			bad("Subscribe did not receive the caller's context")
		}
		if subs[0].SourceID != "<root:root-"+token+">" {
			bad(fmt.Sprintf("Subscribe source is %s, want the request's root value", subs[0].SourceID))
		}
		if p.Info.FieldName != subs[0].Field || p.Info.ParentType == nil || p.Info.ParentType.Name() != "S" || p.Info.ReturnType == nil || build.PathString(p.Info.Path) != t.key {
			bad(fmt.Sprintf("Subscribe info: field %q parent %v return %v path %q (want key %q, parent S)", p.Info.FieldName, p.Info.ParentType, p.Info.ReturnType, build.PathString(p.Info.Path), t.key))
		}
		if p.Info.Operation == nil || p.Info.Operation.GetOperation() != "subscription" || len(p.Info.FieldASTs) != 1 {
			bad("Subscribe info: operation / field occurrences wrong")
		}
		if rm, _ := p.Info.RootValue.(map[string]interface{}); rm == nil || rm["__root"] != "root-"+token {
			bad("Subscribe info: RootValue is not the request's root value")
		}
	}
}
