// Package c20: resolvers are invoked once per selected field with accurate
// parameters (source, args, info, context), also when a plan is reused.
package c20

import (
	"context"
	"fmt"
	"sort"
	"strings"
	"sync"
	"time"

	"github.com/graphql-go/graphql"
	"github.com/graphql-go/graphql/language/ast"

	"verif/internal/build"
	"verif/internal/core"
	"verif/internal/gen/schemagen"
	"verif/internal/gen/typedoc"
	"verif/internal/harness"
	"verif/internal/nast"
	"verif/internal/ref/exec"
	"verif/internal/values"
)

func init() {
	core.Register(&core.Check{
		ID: "C20", Level: "exploration", Race: true,
		Technique: "runtime monitor on hooked callbacks: every ResolveParams / ResolveTypeParams / IsTypeOfParams recorded by instrumented schema callbacks is compared with the invocation the reference executor predicts; plan-reuse histories (sequential and from 4 goroutines under the race detector) with per-request roots, variables and context tokens; resolvers scribble on the args map they receive",
		Rule:      "plus fields without a resolve function over sources of every documented shape (maps, reflected maps, structs by name / json / graphql tag, pointers, FieldResolver implementers, function-valued properties, typed-nil elements) compared with a model of \"the property named like the field\"; case = (schema, valid document, operation, history of k executions of ONE prepared plan with different variables / roots / context tokens); non-trivial: >= 2 resolver invocations and at least one of {list element source, abstract parent type, merged occurrences, arguments, reuse k >= 2}; distinct by hash(schema, document, operation, history)",
		Assumptions: []string{
			"reference executor (internal/ref/exec) predicts paths, parent types, args and sources correctly (calibrated in C01)",
			"FieldASTs are identified by their source offsets",
		},
		Batches:      func(tier string) int { return map[string]int{"quick": 8, "thorough": 16}[tier] },
		Run:          run,
		ChildTimeout: func(tier string) time.Duration { return 25 * time.Minute },
		MinEvals:     func(tier string) int { return 1000 },
	})
}

type reqSpec struct {
	vars  map[string]interface{}
	token string
	o     *values.Outcomes
}

// deepCompare checks every logged callback of ONE request (events already
// filtered by token) against the expectation.
func deepCompare(env *build.Env, exp *exec.Expect, evs []build.Event, rq reqSpec, docAST *nast.Document, rootTok string) []string {
	var out []string
	add := func(f string, a ...interface{}) {
		if len(out) < 6 {
			out = append(out, fmt.Sprintf(f, a...))
		}
	}
	for _, m := range harness.CompareInvocations(exp, evs, true) {
		add("%s", m.String())
	}
	if exp.RequestError {
		return out
	}
	byPath := map[string]*exec.Invocation{}
	for _, inv := range exp.Invocations {
		byPath[inv.Path] = inv
	}
	fragNames := []string{}
	for _, d := range docAST.Defs {
		if f, ok := d.(*nast.Fragment); ok {
			fragNames = append(fragNames, f.Name.Value)
		}
	}
	sort.Strings(fragNames)
	wantVars := harness.CanonVars(exp.Vars)
	checkInfo := func(what, path string, info *graphql.ResolveInfo, ctx context.Context, inv *exec.Invocation) {
		if info == nil {
			add("%s at %q: no info", what, path)
			return
		}
		if info.FieldName != inv.Field {
			add("%s at %q: Info.FieldName=%q, want %q", what, path, info.FieldName, inv.Field)
		}
		if info.ReturnType == nil || info.ReturnType.String() != inv.ReturnType {
			add("%s at %q: Info.ReturnType=%v, want %s", what, path, info.ReturnType, inv.ReturnType)
		}
		if info.ParentType == nil || info.ParentType.Name() != inv.ParentType {
			add("%s at %q: Info.ParentType=%v, want runtime type %s", what, path, info.ParentType, inv.ParentType)
		}
		// every included occurrence must be among FieldASTs
		have := map[int]bool{}
		for _, f := range info.FieldASTs {
			if f != nil && f.Loc != nil {
				have[f.Loc.Start] = true
			}
		}
		for _, f := range inv.Fields {
			if !have[f.Start] {
				add("%s at %q: Info.FieldASTs lacks the included occurrence at offset %d", what, path, f.Start)
			}
		}
		for _, f := range info.FieldASTs {
			if f == nil || f.Name == nil {
				continue
			}
			key := f.Name.Value
			if f.Alias != nil {
				key = f.Alias.Value
			}
			if !strings.HasSuffix(path, key) && !strings.Contains(path, key+"/") {
				add("%s at %q: Info.FieldASTs contains a field with response key %q", what, path, key)
			}
		}
		if op, ok := info.Operation.(*ast.OperationDefinition); !ok || op == nil || op.Loc == nil || op.Loc.Start != exp.Op.Start {
			add("%s at %q: Info.Operation is not the selected operation", what, path)
		}
		var got []string
		for n := range info.Fragments {
			got = append(got, n)
		}
		sort.Strings(got)
		if strings.Join(got, ",") != strings.Join(fragNames, ",") {
			add("%s at %q: Info.Fragments=%v, want %v", what, path, got, fragNames)
		}
		if g := harness.CanonVars(info.VariableValues); g != wantVars {
			add("%s at %q: Info.VariableValues=%s, want %s", what, path, g, wantVars)
		}
		if rt := rootToken(info.RootValue); rt != rootTok {
			add("%s at %q: Info.RootValue carries %q, want %q", what, path, rt, rootTok)
		}
		if info.Schema.QueryType() != env.Schema.QueryType() {
			add("%s at %q: Info.Schema is not the schema of the request", what, path)
		}
		if tok := build.Token(ctx); tok != rq.token {
			add("%s at %q: context token %q, want %q", what, path, tok, rq.token)
		}
	}
	for _, ev := range evs {
		switch ev.Kind {
		case "resolve":
			inv := byPath[ev.Path]
			if inv == nil || ev.Params == nil {
				continue
			}
			info := ev.Params.Info
			checkInfo("resolver", ev.Path, &info, ev.Params.Context, inv)
			if build.PathString(info.Path) != inv.Path {
				add("resolver: Info.Path=%q, want %q", build.PathString(info.Path), inv.Path)
			}
		case "resolveType", "isTypeOf":
			// the value being completed is the one produced at this path; the
			// info is that of the field whose value is being completed
			fieldPath := trimIndices(ev.Path)
			inv := byPath[fieldPath]
			if inv == nil {
				continue
			}
			// Info is the field's info (its Path has no list indices); the
			// value must be the one produced at that field or one of its
			// list elements.
			if trimIndices(ev.ValueID) != fieldPath {
				add("%s at %q received value %s, want a value produced by that field", ev.Kind, ev.Path, ev.ValueID)
			}
			checkInfo(ev.Kind, fieldPath, ev.Info, ev.Ctx, inv)
		}
	}
	// type resolutions expected must have happened exactly once each (abstract
	// types with a ResolveType function; only decided for error-free executions,
	// where nothing is skipped because of a nulled subtree)
	if len(exp.Errors) == 0 {
		seen := map[string]int{}
		for _, ev := range evs {
			if ev.Kind == "resolveType" {
				seen[ev.ValueID]++
			}
		}
		for _, tr := range exp.TypeResolutions {
			td := env.Model.Type(tr.Abstract)
			if td == nil || td.NoResolveType {
				continue
			}
			if seen[tr.Path] != 1 {
				add("resolveType for the value at %q (%s) called %d times, want 1", tr.Path, tr.Abstract, seen[tr.Path])
			}
		}
	}
	return out
}

func trimIndices(p string) string {
	parts := strings.Split(p, "/")
	for len(parts) > 0 {
		last := parts[len(parts)-1]
		if last != "" && last[0] >= '0' && last[0] <= '9' {
			parts = parts[:len(parts)-1]
			continue
		}
		break
	}
	return strings.Join(parts, "/")
}

func rootToken(v interface{}) string {
	if m, ok := v.(map[string]interface{}); ok {
		if t, ok := m["__root"].(string); ok {
			return t
		}
		return ""
	}
	return ""
}

func filterByToken(evs []build.Event, tok string) []build.Event {
	var out []build.Event
	for _, e := range evs {
		var c context.Context
		switch {
		case e.Params != nil:
			c = e.Params.Context
		case e.Ctx != nil:
			c = e.Ctx
		default:
			continue
		}
		if build.Token(c) == tok {
			out = append(out, e)
		}
	}
	return out
}

func run(c *core.Child) {
	defaultResolverCases(c)
	recursiveFamily(c)
	if c.Batch == 0 {
		subscribeRoute(c)
	}
	nSchemas := c.Scale(5, 24)
	nDocs := c.Scale(40, 120)
	for si := 0; si < nSchemas; si++ {
		sr := c.RNG(1, uint64(si))
		m := schemagen.Gen(sr, schemagen.DefaultOptions(sr))
		env, err := build.Build(m, sr.U64())
		if err != nil {
			continue
		}
		env.MutateArgs = true
		for di := 0; di < nDocs; di++ {
			id := fmt.Sprintf("s%d/d%d", si, di)
			if !c.Begin(id) {
				continue
			}
			dr := c.RNG(2, uint64(si), uint64(di))
			d := typedoc.Gen(dr, m, typedoc.DefaultOptions(dr))
			text := nast.Print(d.AST)
			astDoc, perr := harness.Parse(text)
			if perr != nil {
				continue
			}
			if vr := graphql.ValidateDocument(&env.Schema, astDoc, nil); !vr.IsValid {
				continue
			}
			for oi, op := range d.Ops {
				opName := ""
				if op.Name != nil {
					opName = op.Name.Value
				} else if len(d.Ops) > 1 {
					continue
				}
				plan, err := graphql.PlanQuery(&env.Schema, astDoc, opName)
				if err != nil {
					continue
				}
				k := dr.Range(2, c.Scale(6, 20))
				var hist []reqSpec
				for j := 0; j < k; j++ {
					jr := c.RNG(3, uint64(si), uint64(di), uint64(oi), uint64(j))
					rq := reqSpec{vars: typedoc.Assignment(jr, m, d, op, jr.U64()), token: fmt.Sprintf("tok-%d-%d", di, j)}
					if jr.Chance(40) {
						rq.o = &values.Outcomes{Seed: jr.U64(), Density: jr.Range(5, 25), Kinds: []values.Kind{values.Nil, values.Error, values.PanicError, values.ThunkValue}}
					}
					hist = append(hist, rq)
				}
				report := func(phase string, rq reqSpec, probs []string, exp *exec.Expect) {
					if len(probs) == 0 {
						return
					}
					cls := probs[0]
					if i := strings.Index(cls, ":"); i > 0 {
						cls = cls[:i]
					}
					if i := strings.Index(cls, " at "); i > 0 {
						cls = cls[:i]
					}
					c.Violation("params:"+strings.ReplaceAll(cls, " ", "-"), phase+": "+strings.Join(probs, "; "),
						map[string]interface{}{"schema": m.SDL(), "document": text, "operation": opName, "variables": rq.vars, "token": rq.token, "outcomes": rq.o.Describe()})
				}
				// phase 1: sequential reuse of one plan
				for _, rq := range hist {
					exp := exec.Execute(m, d.AST, opName, rq.vars, rq.o, env.Seed)
					if exp.VarStatus == 2 {
						continue
					}
					relaxD3(c, exp)
					root := map[string]interface{}{"__root": "root-" + rq.token}
					ctx := build.WithToken(context.Background(), rq.token)
					var r *harness.Run
					if c.Guard("panic:ExecutePlan", text, func() { r = harness.ExecutePlan(env, plan, rq.vars, rq.o, ctx, root) }) {
						continue
					}
					c.Eval(1)
					report("sequential-reuse", rq, deepCompare(env, exp, r.Events, rq, d.AST, "root-"+rq.token), exp)
					nt := len(exp.Invocations) >= 2
					if nt {
						c.Nontrivial(core.HashString(m.SDL() + text + opName + harness.CanonArgs(rq.vars) + rq.o.Describe()))
					}
					for _, inv := range exp.Invocations {
						if len(inv.Fields) > 1 {
							c.Feature("merged-occurrences")
							break
						}
					}
					if len(exp.TypeResolutions) > 0 {
						c.Feature("abstract-parent")
					}
				}
				// also through Do once (fresh plan inside)
				{
					rq := hist[0]
					exp := exec.Execute(m, d.AST, opName, rq.vars, rq.o, env.Seed)
					if exp.VarStatus != 2 {
						relaxD3(c, exp)
						ctx := build.WithToken(context.Background(), rq.token)
						env.SetOutcomes(rq.o)
						env.Log.Reset()
						var res *graphql.Result
						root := map[string]interface{}{"__root": "root-" + rq.token}
						if !c.Guard("panic:Do", text, func() {
							res = graphql.Do(graphql.Params{Schema: env.Schema, RequestString: text, OperationName: opName, VariableValues: rq.vars, Context: ctx, RootObject: root})
						}) {
							_ = res
							c.Eval(1)
							report("Do", rq, deepCompare(env, exp, env.Log.Snapshot(), rq, d.AST, "root-"+rq.token), exp)
						}
					}
				}
				// phase 2: the same plan from 4 goroutines (all-value outcomes
				// so the shared outcome table is not a variable), under -race
				if di%3 == 0 {
					env.SetOutcomes(nil)
					env.Log.Reset()
					var wg sync.WaitGroup
					n := 4
					if len(hist) < n {
						n = len(hist)
					}
					for g := 0; g < n; g++ {
						wg.Add(1)
						go func(rq reqSpec) {
							defer wg.Done()
							defer func() { recover() }()
							ctx := build.WithToken(context.Background(), rq.token)
							root := map[string]interface{}{"__root": "root-" + rq.token}
							for rep := 0; rep < 3; rep++ {
								graphql.ExecutePlan(plan, graphql.ExecuteParams{Schema: env.Schema, Args: rq.vars, Context: ctx, Root: root})
							}
						}(hist[g])
					}
					wg.Wait()
					all := env.Log.Snapshot()
					for g := 0; g < n; g++ {
						rq := hist[g]
						rq.o = nil
						exp := exec.Execute(m, d.AST, opName, rq.vars, nil, env.Seed)
						if exp.VarStatus == 2 {
							continue
						}
						evs := filterByToken(all, rq.token)
						// three repetitions: every path thrice
						probs := deepCompareRepeated(env, exp, evs, rq, d.AST, 3)
						c.Eval(3)
						report("concurrent-reuse", rq, probs, exp)
						c.Feature("concurrent-reuse")
					}
				}
				if di == 0 {
					c.Sample("history", map[string]interface{}{"document": text, "operation": opName, "executions": len(hist), "first_variables": hist[0].vars})
				}
			}
		}
	}
}

// deepCompareRepeated splits a log holding `reps` executions of one request
// into per-path groups and checks each occurrence.
func deepCompareRepeated(env *build.Env, exp *exec.Expect, evs []build.Event, rq reqSpec, docAST *nast.Document, reps int) []string {
	var out []string
	count := map[string]int{}
	for _, e := range evs {
		if e.Kind == "resolve" {
			count[e.Path]++
		}
	}
	for _, inv := range exp.Invocations {
		if inv.Required && count[inv.Path] != reps {
			out = append(out, fmt.Sprintf("invocation-count: %q invoked %d times over %d executions", inv.Path, count[inv.Path], reps))
		}
	}
	// check params of every event using a de-duplicated view: one event per path per round
	round := map[string]int{}
	rounds := make([][]build.Event, reps)
	for _, e := range evs {
		key := e.Kind + "|" + e.Path + "|" + e.ValueID
		r := round[key]
		if r < reps {
			rounds[r] = append(rounds[r], e)
		}
		round[key]++
	}
	for _, revs := range rounds {
		for _, p := range deepCompare(env, exp, revs, rq, docAST, "root-"+rq.token) {
			if strings.HasPrefix(p, "not-invoked") || strings.HasPrefix(p, "invoked-twice") {
				continue
			}
			out = append(out, p)
		}
	}
	if len(out) > 6 {
		out = out[:6]
	}
	return out
}

// relaxD3 applies the relaxation of the known defect D3 (KNOWN_FINDINGS.txt,
// C01/C04): when a failure leaves a deferred value in a non-null position the
// library abandons the whole execution, so in exactly those cases no
// invocation is demanded (at most once still is).
func relaxD3(c *core.Child, exp *exec.Expect) {
	if !exp.ThunkNonNullFailure {
		return
	}
	c.DontCare("D3-thunk-failure-in-nonnull-position: invocations not demanded")
	for _, inv := range exp.Invocations {
		inv.Required = false
	}
}
