package c20

// Fields WITHOUT a resolve function: the library's default resolver must
// deliver "the property of the source object of the same name as the field
// … or if it's a function, the result of calling that function" — and the
// source it reads is the value the parent resolved to (the individual element
// under a list, the request's root value at the top level). The workload
// hands out sources of every shape the default resolver documents (string
// maps, maps read by reflection, structs by field name / json tag / graphql
// tag, pointers to structs, FieldResolver implementers, function-valued
// properties, typed-nil pointers) and compares the response with a small
// model of "the property named like the field".

import (
	"encoding/json"
	"fmt"
	"reflect"
	"strings"

	"github.com/graphql-go/graphql"

	"verif/internal/core"
	"verif/internal/harness"
)

type drStruct struct {
	ID     string
	Name   string
	Count  int
	T      string `json:"tagged,omitempty"`
	G      string `graphql:"gql"`
	Other  string `json:"-"`
	Child  *drStruct
	Kids   []*drStruct
	hidden string
}

type drResolver struct {
	label string
	seen  *[]string // what the implementer was asked for
}

func (r drResolver) Resolve(p graphql.ResolveParams) (interface{}, error) {
	if _, ok := p.Source.(drResolver); !ok {
		return nil, fmt.Errorf("FieldResolver called with a source of type %T", p.Source)
	}
	switch p.Info.FieldName {
	case "count":
		return 11, nil
	case "child", "kids":
		return nil, nil
	}
	return "fr:" + r.label + ":" + p.Info.FieldName, nil
}

var drLeafFields = []string{"id", "name", "count", "tagged", "gql", "fn", "missing"}

// drSource builds a source of the given kind; depth bounds the nesting of
// child / kids. It returns the Go value handed to the library and the
// response subtree the model expects for a full selection.
func drSource(r *core.RNG, kind, depth int, label string) (interface{}, func(field string) (interface{}, bool)) {
	str := func(f string) string { return label + "." + f }
	switch kind {
	case 0, 5: // map[string]interface{}; kind 5: every leaf is a function-valued property
		m := map[string]interface{}{"id": str("id"), "name": str("name"), "count": 3 + len(label), "tagged": str("tagged"), "gql": str("gql"),
			"fn": func() interface{} { return str("fn()") }}
		exp := map[string]interface{}{"id": str("id"), "name": str("name"), "count": 3 + len(label), "tagged": str("tagged"), "gql": str("gql"), "fn": str("fn()"), "missing": nil}
		if kind == 5 {
			for _, f := range []string{"id", "name", "tagged", "gql"} {
				f := f
				m[f] = func() interface{} { return str(f + "()") }
				exp[f] = str(f + "()")
			}
		}
		var childExp func(string) (interface{}, bool)
		var kidsExp []func(string) (interface{}, bool)
		if depth > 0 {
			var cv interface{}
			cv, childExp = drSource(r, r.Intn(6), depth-1, label+"c")
			m["child"] = cv
			n := r.Intn(3)
			kids := make([]interface{}, 0, n)
			for i := 0; i < n; i++ {
				kv, ke := drSource(r, r.Intn(7), depth-1, fmt.Sprintf("%sk%d", label, i))
				kids = append(kids, kv)
				kidsExp = append(kidsExp, ke)
			}
			m["kids"] = kids
		}
		return m, func(f string) (interface{}, bool) {
			switch f {
			case "child":
				if childExp == nil {
					return nil, true
				}
				return childExp, true
			case "kids":
				if depth <= 0 {
					return nil, true
				}
				return kidsExp, true
			}
			v, ok := exp[f]
			return v, ok
		}
	case 1, 2: // struct value / pointer to struct
		s := drStruct{ID: str("id"), Name: str("name"), Count: 5 + len(label), T: str("tagged"), G: str("gql"), Other: "never", hidden: "never"}
		var childExp func(string) (interface{}, bool)
		var kidsExp []func(string) (interface{}, bool)
		if depth > 0 {
			cv, ce := drSource(r, 2, depth-1, label+"c")
			s.Child = cv.(*drStruct)
			childExp = ce
			n := r.Intn(3)
			s.Kids = []*drStruct{} // never a nil slice: whether that is null or [] is not this check's business
			for i := 0; i < n; i++ {
				kv, ke := drSource(r, 2, depth-1, fmt.Sprintf("%sk%d", label, i))
				s.Kids = append(s.Kids, kv.(*drStruct))
				kidsExp = append(kidsExp, ke)
			}
		}
		exp := map[string]interface{}{"id": s.ID, "name": s.Name, "count": s.Count, "tagged": s.T, "gql": s.G, "fn": nil, "missing": nil}
		get := func(f string) (interface{}, bool) {
			switch f {
			case "child":
				if childExp == nil {
					return nil, true
				}
				return childExp, true
			case "kids":
				// a nil slice completes as null, an empty non-nil one as []
				if s.Kids == nil {
					return nil, true
				}
				return kidsExp, true
			}
			v, ok := exp[f]
			return v, ok
		}
		if kind == 1 {
			return s, get
		}
		return &s, get
	case 3: // map[string]string: read by reflection
		m := map[string]string{"id": str("id"), "name": str("name"), "tagged": str("tagged"), "gql": str("gql")}
		return m, func(f string) (interface{}, bool) {
			if v, ok := m[f]; ok {
				return v, true
			}
			return nil, true
		}
	case 4: // FieldResolver implementer
		return drResolver{label: label}, func(f string) (interface{}, bool) {
			switch f {
			case "count":
				return 11, true
			case "child", "kids":
				return nil, true
			}
			return "fr:" + label + ":" + f, true
		}
	default: // typed-nil pointer: the element itself is null
		var p *drStruct
		return p, nil
	}
}

type drSel struct {
	key, field string
	sub        []drSel
}

func drSelection(r *core.RNG, depth int) []drSel {
	var out []drSel
	used := map[string]bool{}
	for _, f := range drLeafFields {
		if r.Chance(60) {
			key := f
			if r.Chance(25) {
				key = "a_" + f
			}
			used[key] = true
			out = append(out, drSel{key: key, field: f})
		}
	}
	if depth > 0 {
		if r.Chance(70) {
			out = append(out, drSel{key: "child", field: "child", sub: drSelection(r, depth-1)})
		}
		if r.Chance(70) {
			out = append(out, drSel{key: "kids", field: "kids", sub: drSelection(r, depth-1)})
		}
	}
	if len(out) == 0 {
		out = append(out, drSel{key: "id", field: "id"})
	}
	return out
}

func drPrint(sel []drSel) string {
	var b strings.Builder
	b.WriteString("{ ")
	for _, s := range sel {
		if s.key != s.field {
			b.WriteString(s.key + ": ")
		}
		b.WriteString(s.field + " ")
		if s.sub != nil {
			b.WriteString(drPrint(s.sub) + " ")
		}
	}
	b.WriteString("}")
	return b.String()
}

// drExpect renders the model's expectation for a source under a selection.
func drExpect(get func(string) (interface{}, bool), sel []drSel) interface{} {
	if get == nil {
		return nil
	}
	out := map[string]interface{}{}
	for _, s := range sel {
		v, _ := get(s.field)
		switch x := v.(type) {
		case func(string) (interface{}, bool):
			out[s.key] = drExpect(x, s.sub)
		case []func(string) (interface{}, bool):
			list := make([]interface{}, 0, len(x))
			for _, g := range x {
				list = append(list, drExpect(g, s.sub))
			}
			out[s.key] = list
		default:
			out[s.key] = v
		}
	}
	return out
}

func drJSON(v interface{}) string {
	b, err := json.Marshal(v)
	if err != nil {
		return "marshal error: " + err.Error()
	}
	return string(b)
}

func defaultResolverCases(c *core.Child) {
	var item *graphql.Object
	item = graphql.NewObject(graphql.ObjectConfig{Name: "Item", Fields: (graphql.FieldsThunk)(func() graphql.Fields {
		return graphql.Fields{
			"id": &graphql.Field{Type: graphql.String}, "name": &graphql.Field{Type: graphql.String}, "count": &graphql.Field{Type: graphql.Int},
			"tagged": &graphql.Field{Type: graphql.String}, "gql": &graphql.Field{Type: graphql.String}, "fn": &graphql.Field{Type: graphql.String},
			"missing": &graphql.Field{Type: graphql.String}, "child": &graphql.Field{Type: item}, "kids": &graphql.Field{Type: graphql.NewList(item)},
		}
	})})
	// the root fields have no resolver either: they read the request's root value
	q := graphql.NewObject(graphql.ObjectConfig{Name: "Query", Fields: graphql.Fields{
		"items": &graphql.Field{Type: graphql.NewList(item)},
		"one":   &graphql.Field{Type: item},
		"label": &graphql.Field{Type: graphql.String},
	}})
	schema, err := graphql.NewSchema(graphql.SchemaConfig{Query: q})
	if err != nil {
		c.Violation("harness:schema-build", err.Error(), nil)
		return
	}
	caches := []*graphql.PlanCache{graphql.NewPlanCache(graphql.PlanCacheOptions{MaxEntries: 8}), graphql.NewPlanCache(graphql.PlanCacheOptions{MaxEntries: 8, Normalize: true})}
	n := c.Scale(150, 1500)
	for i := 0; i < n; i++ {
		id := fmt.Sprintf("default-resolver/%d", i)
		if !c.Begin(id) {
			continue
		}
		r := c.RNG(9, uint64(i))
		depth := r.Intn(3)
		sel := drSelection(r, depth)
		var sources []interface{}
		var gets []func(string) (interface{}, bool)
		kinds := []string{}
		for k := 0; k < r.Range(1, 5); k++ {
			kind := r.Intn(7)
			kinds = append(kinds, fmt.Sprint(kind))
			sv, g := drSource(r, kind, depth, fmt.Sprintf("s%d", k))
			sources = append(sources, sv)
			gets = append(gets, g)
		}
		oneKind := r.Intn(6)
		oneSrc, oneGet := drSource(r, oneKind, depth, "one")
		selText := drPrint(sel)
		text := fmt.Sprintf("{ items %s one %s label }", selText, selText)
		var items []interface{}
		for _, g := range gets {
			items = append(items, drExpect(g, sel))
		}
		want := drJSON(map[string]interface{}{"data": map[string]interface{}{"items": items, "one": drExpect(oneGet, sel), "label": "L" + fmt.Sprint(i)}})
		rootMap := map[string]interface{}{"items": sources, "one": oneSrc, "label": "L" + fmt.Sprint(i)}
		type rootStruct struct {
			Items []interface{}
			One   interface{} `json:"one"`
			Label string      `graphql:"label"`
		}
		var root interface{} = rootMap
		if r.Chance(40) {
			root = &rootStruct{Items: sources, One: oneSrc, Label: "L" + fmt.Sprint(i)}
		}
		info := map[string]interface{}{"document": text, "source_kinds": strings.Join(kinds, ","), "one_kind": oneKind, "root": fmt.Sprintf("%T", root)}
		check := func(entry string, res *graphql.Result) {
			c.Eval(1)
			c.Feature("default-resolver:" + entry)
			if got := drJSON(res); got != want {
				c.Violation("default-resolver:"+entry, fmt.Sprintf("%s: fields without a resolve function: got %s, the properties of the sources are %s", entry, trunc(got), trunc(want)), info)
			}
		}
		doc, perr := harness.Parse(text)
		if perr != nil {
			c.Violation("harness:parse", perr.Error(), text)
			continue
		}
		var res *graphql.Result
		if rm, ok := root.(map[string]interface{}); ok {
			if !c.Guard("panic:Do", text, func() { res = graphql.Do(graphql.Params{Schema: schema, RequestString: text, RootObject: rm}) }) {
				check("Do", res)
			}
		}
		if !c.Guard("panic:Execute", text, func() { res = graphql.Execute(graphql.ExecuteParams{Schema: schema, AST: doc, Root: root}) }) {
			check("Execute", res)
		}
		for ci, cache := range caches {
			pr := cache.Get(&schema, text, "")
			if pr.Plan == nil {
				c.Violation("default-resolver:plan", fmt.Sprintf("no plan: %v", pr.Errors), info)
				continue
			}
			if !c.Guard("panic:ExecutePlan", text, func() {
				res = graphql.ExecutePlan(pr.Plan, graphql.ExecuteParams{Schema: schema, Root: root, Args: pr.SynthArgs})
			}) {
				check(fmt.Sprintf("ExecutePlan/cache%d", ci), res)
			}
		}
		c.Nontrivial(core.HashString("dr\x00" + text + strings.Join(kinds, ",") + fmt.Sprint(oneKind, reflect.TypeOf(root))))
		if i == 0 {
			c.Sample("default-resolver", map[string]interface{}{"document": text, "source_kinds": kinds, "expected": trunc(want)})
		}
	}
}

func trunc(s string) string {
	if len(s) > 900 {
		return s[:900] + "…"
	}
	return s
}
