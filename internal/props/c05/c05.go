// Package c05: variables and arguments are coerced per declared type before
// resolvers run (differential against ref/coerce + a metamorphic law over the
// three delivery routes literal / variable / variable default).
package c05

import (
	"fmt"
	"math"
	"sort"
	"strconv"
	"strings"
	"time"

	"github.com/graphql-go/graphql"

	"verif/internal/build"
	"verif/internal/core"
	"verif/internal/gen/schemagen"
	"verif/internal/gen/typedoc"
	"verif/internal/harness"
	"verif/internal/model"
	"verif/internal/mon/respcmp"
	"verif/internal/nast"
	"verif/internal/ref/coerce"
	"verif/internal/ref/exec"
	"verif/internal/ref/syntax"
)

func init() {
	core.Register(&core.Check{
		ID: "C05", Level: "exploration",
		Technique: "differential runtime monitor on ResolveParams.Args / Info.VariableValues and on the resolver invocation counter, against an independent model of input coercion; plus the model-free metamorphic law literal == variable == variable default",
		Rule:      "case = (input type built from generated scalars / enums with arbitrary internal values / nested input objects / lists of lists / non-null wrappers, with or without argument default; a JSON-like value: conformant, or a one-step non-conformant mutation of a conformant one; a delivery route); non-trivial: the type has a wrapper, an enum, an input object or a default, or the value is non-conformant; distinct by hash(schema, type, value, route)",
		Assumptions: []string{
			"rejection is demanded only for the classes the property names; values the edition coerces leniently (bool or numeric string for Int/Float, fractional float for Int, non-strings for String/ID/Boolean) are don't-care for accept/reject",
			"a non-null type with a default value is not generated (the edition's rules make that combination inconsistent)",
		},
		Batches:      func(tier string) int { return map[string]int{"quick": 8, "thorough": 16}[tier] },
		Run:          run,
		ChildTimeout: func(tier string) time.Duration { return 20 * time.Minute },
		MinEvals:     func(tier string) int { return 3000 },
	})
}

// probeModel: Q has one field per probed argument type.
func probeModel(r *core.RNG) (*model.Schema, []*model.FieldDef) {
	base := schemagen.Gen(r, schemagen.Options{Objects: 1, Interfaces: 0, Unions: 0, Enums: 3, Inputs: 4, MaxFields: 2, MaxArgs: 1, WrapDepth: 2})
	var inputs []string
	for _, t := range base.Types {
		if t.Kind == model.Enum || t.Kind == model.InputObject {
			inputs = append(inputs, t.Name)
		}
	}
	// an enum whose internal Go values are partly unhashable (a slice, a map):
	// legal for input use — names are looked up by name, not by value
	base.Types = append(base.Types, &model.TypeDef{Kind: model.Enum, Name: "EU", Values: []*model.EnumVal{
		{Name: "EU_PLAIN", Internal: "plain"},
		{Name: "EU_SLICE", Internal: []interface{}{1, "x"}},
		{Name: "EU_MAP", Internal: map[string]interface{}{"k": 1}},
		{Name: "EU_INT", Internal: 7},
	}})
	base.Reindex()
	inputs = append(inputs, "EU", "Int", "Float", "String", "Boolean", "ID", "Tag")
	N, NN, L := model.Named, model.NonNull, model.ListOf
	shapes := []func(t *model.TypeRef) *model.TypeRef{
		func(t *model.TypeRef) *model.TypeRef { return t },
		func(t *model.TypeRef) *model.TypeRef { return NN(t) },
		func(t *model.TypeRef) *model.TypeRef { return L(t) },
		func(t *model.TypeRef) *model.TypeRef { return NN(L(t)) },
		func(t *model.TypeRef) *model.TypeRef { return L(NN(t)) },
		func(t *model.TypeRef) *model.TypeRef { return NN(L(NN(t))) },
		func(t *model.TypeRef) *model.TypeRef { return L(L(t)) },
		func(t *model.TypeRef) *model.TypeRef { return L(NN(L(NN(t)))) },
	}
	q := base.Type("Q")
	q.Fields = nil
	var probes []*model.FieldDef
	i := 0
	for _, in := range inputs {
		for si, sh := range shapes {
			t := sh(N(in))
			for _, withDefault := range []bool{false, true} {
				if withDefault && (t.Kind == "nonnull" || si%2 == 1) {
					continue
				}
				a := &model.InputDef{Name: "a", Type: t}
				if withDefault {
					a.Default = schemagen.InternalValue(r, base, t, 2)
					a.HasDefault = !coerce.Nullish(a.Default)
					if !a.HasDefault {
						continue
					}
				}
				f := &model.FieldDef{Name: fmt.Sprintf("p%d", i), Type: N("String"), Args: []*model.InputDef{a}}
				if r.Chance(30) {
					f.Args = append(f.Args, &model.InputDef{Name: "other", Type: N("Int"), HasDefault: true, Default: 99})
				}
				i++
				q.Fields = append(q.Fields, f)
				probes = append(probes, f)
			}
		}
	}
	// the same probes on the subscription root: the Subscribe function is a
	// resolver too and must see the same coerced argument map
	sub := &model.TypeDef{Kind: model.Object, Name: "SubRoot"}
	for _, f := range q.Fields {
		cp := *f
		sub.Fields = append(sub.Fields, &cp)
	}
	base.Types = append(base.Types, sub)
	base.Subscription = "SubRoot"
	base.Mutation = ""
	base.Extra = nil
	base.Reindex()
	return base, probes
}

// literalOf writes a CONFORMANT JSON-like value as a literal of type t.
func literalOf(s *model.Schema, t *model.TypeRef, v interface{}) (nast.Node, bool) {
	if v == nil {
		return nil, false
	}
	switch t.Kind {
	case "nonnull":
		return literalOf(s, t.Of, v)
	case "list":
		xs, ok := v.([]interface{})
		if !ok {
			return literalOf(s, t.Of, v) // list-of-one
		}
		lv := &nast.ListValue{}
		for _, x := range xs {
			it, ok := literalOf(s, t.Of, x)
			if !ok {
				return nil, false // null elements cannot be written (no null literal)
			}
			lv.Items = append(lv.Items, it)
		}
		return lv, true
	}
	td := s.Type(t.Name)
	switch td.Kind {
	case model.Enum:
		str, ok := v.(string)
		return &nast.EnumValue{Value: str}, ok
	case model.InputObject:
		m, ok := v.(map[string]interface{})
		if !ok {
			return nil, false
		}
		ov := &nast.ObjectValue{}
		keys := make([]string, 0, len(m))
		for k := range m {
			keys = append(keys, k)
		}
		sort.Strings(keys)
		for _, k := range keys {
			f := td.InputField(k)
			if f == nil {
				return nil, false
			}
			if m[k] == nil {
				continue
			}
			fv, ok := literalOf(s, f.Type, m[k])
			if !ok {
				return nil, false
			}
			ov.Fields = append(ov.Fields, &nast.ObjectField{Name: &nast.Name{Value: k}, Value: fv})
		}
		return ov, true
	}
	switch t.Name {
	case "Int":
		switch x := v.(type) {
		case int:
			return &nast.IntValue{Raw: strconv.Itoa(x)}, true
		case float64:
			if x == math.Trunc(x) {
				return &nast.IntValue{Raw: strconv.FormatInt(int64(x), 10)}, true
			}
		}
	case "Float":
		switch x := v.(type) {
		case int:
			return &nast.IntValue{Raw: strconv.Itoa(x)}, true
		case float64:
			raw := strconv.FormatFloat(x, 'g', -1, 64)
			if !strings.ContainsAny(raw, ".eE") {
				return &nast.IntValue{Raw: raw}, true
			}
			raw = strings.Replace(raw, "e+", "e", 1)
			return &nast.FloatValue{Raw: raw}, true
		}
	case "String", "Tag":
		if x, ok := v.(string); ok {
			return &nast.StringValue{Value: x}, true
		}
	case "ID":
		switch x := v.(type) {
		case string:
			return &nast.StringValue{Value: x}, true
		case int:
			return &nast.IntValue{Raw: strconv.Itoa(x)}, true
		}
	case "Boolean":
		if x, ok := v.(bool); ok {
			return &nast.BooleanValue{Value: x}, true
		}
	}
	return nil, false
}

// mutate returns one-step non-conformant (or oddly shaped) variants of v for type t.
func mutate(r *core.RNG, s *model.Schema, t *model.TypeRef, v interface{}) []interface{} {
	var out []interface{}
	add := func(x interface{}) { out = append(out, x) }
	inner := t
	if inner.Kind == "nonnull" {
		add(nil) // null / absent for non-null
		inner = inner.Of
	}
	switch inner.Kind {
	case "list":
		xs, _ := v.([]interface{})
		add(append(append([]interface{}{}, xs...), nil)) // null element (invalid iff element non-null)
		for _, m := range mutate(r, s, inner.Of, first(xs)) {
			add([]interface{}{m})
			add(append(append([]interface{}{}, xs...), m))
		}
		return out
	}
	td := s.Type(inner.Name)
	switch td.Kind {
	case model.Enum:
		add("NO_SUCH_VALUE")
		add(7)
		add(true)
		add(fmt.Sprint(td.Values[0].Internal)) // the internal value is not a name
		add(map[string]interface{}{})
	case model.InputObject:
		add("not an object")
		add(12)
		add([]interface{}{"x"})
		m, _ := v.(map[string]interface{})
		unk := cloneMap(m)
		unk["no_such_field"] = 1
		add(unk)
		for _, f := range td.InputFields {
			if f.Type.Kind == "nonnull" {
				miss := cloneMap(m)
				delete(miss, f.Name)
				add(miss)
			}
			for _, fm := range mutate(r, s, f.Type, m[f.Name]) {
				bad := cloneMap(m)
				bad[f.Name] = fm
				add(bad)
			}
		}
	case model.Scalar:
		switch inner.Name {
		case "Int":
			add("abc")
			add(2147483648)
			add(-2147483649)
			add(float64(3e10))
			add(float64(-3e10))
			add(map[string]interface{}{"a": 1})
			add([]interface{}{1, 2})
			add("12") // lenient
			add(true) // lenient
			add(1.5)  // lenient
			add(math.MaxInt64)
		case "Float":
			add("abc")
			add(map[string]interface{}{})
			add("1.5") // lenient
			add(false) // lenient
		case "String":
			add(5)
			add(true)
			add(map[string]interface{}{"a": 1})
		case "Boolean":
			add("yes")
			add(0)
		case "ID":
			add(1.5)
			add(true)
		case "Tag":
			add(5)
			add(map[string]interface{}{})
		}
	}
	return out
}

func first(xs []interface{}) interface{} {
	if len(xs) > 0 {
		return xs[0]
	}
	return nil
}

func cloneMap(m map[string]interface{}) map[string]interface{} {
	out := map[string]interface{}{}
	for k, v := range m {
		out[k] = v
	}
	return out
}

type caseInfo struct {
	Type     string      `json:"type"`
	Default  interface{} `json:"arg_default,omitempty"`
	Value    interface{} `json:"value"`
	Route    string      `json:"route"`
	Document string      `json:"document"`
	Schema   string      `json:"schema,omitempty"`
}

func run(c *core.Child) {
	nSchemas := c.Scale(2, 12)
	nValues := c.Scale(5, 14)
	for si := 0; si < nSchemas; si++ {
		sr := c.RNG(1, uint64(si))
		m, probes := probeModel(sr)
		env, err := build.Build(m, sr.U64())
		if err != nil {
			if c.Begin(fmt.Sprintf("s%d/build", si)) {
				c.Violation("harness:schema-build", err.Error(), m.SDL())
			}
			continue
		}
		for pi, f := range probes {
			hostileLiterals(c, env, m, f, fmt.Sprintf("s%d/p%d/lit", si, pi))
			partialVariables(c, env, m, f, fmt.Sprintf("s%d/p%d/pv", si, pi))
			arg := f.Args[0]
			t := arg.Type
			for vi := 0; vi < nValues; vi++ {
				id := fmt.Sprintf("s%d/p%d/v%d", si, pi, vi)
				if !c.Begin(id) {
					continue
				}
				vr := c.RNG(2, uint64(si), uint64(pi), uint64(vi))
				v := typedoc.VarValue(vr, m, t, 3)
				values := []interface{}{v}
				if vi == 0 {
					values = append(values, mutate(vr, m, t, v)...)
				}
				for mi, val := range values {
					runValue(c, env, m, f, val, mi == 0, fmt.Sprintf("%s/m%d", id, mi))
				}
			}
		}
	}
}

// caches of the schema being probed: one plain, one normalising, shared by
// every request sent to that schema (so a normalised entry made for one
// literal serves the next literal of the same shape).
var (
	cacheEnv *build.Env
	caches   []*graphql.PlanCache
)

func cachesOf(env *build.Env) []*graphql.PlanCache {
	if cacheEnv != env {
		cacheEnv = env
		caches = []*graphql.PlanCache{
			graphql.NewPlanCache(graphql.PlanCacheOptions{MaxEntries: 32}),
			graphql.NewPlanCache(graphql.PlanCacheOptions{MaxEntries: 32, Normalize: true}),
		}
	}
	return caches
}

// cacheRoutes: the same request served by PlanCache.Get + ExecutePlan (the
// documented hot loop), through a plain and a normalising cache. The
// normalising cache turns literals into synthetic variables, i.e. it moves a
// value from the literal coercion path to the variable coercion path; the
// resolver must not notice. Demanded, relative to the run ref of the same
// request through Do: same accept / reject verdict, same number of resolver
// invocations, same argument map, same data.
func cacheRoutes(c *core.Child, env *build.Env, field, route, text string, vars map[string]interface{}, ref *harness.Run, info caseInfo) {
	refArgs, refN := argsAt(ref, field)
	refFailed := ref.Result.Data == nil && len(ref.Result.Errors) > 0
	for ci, cache := range cachesOf(env) {
		mode := []string{"plain", "normalize"}[ci]
		// the variable route has no literal to normalise and one text per probe:
		// the plain cache makes it "one plan, many variable values"; the literal
		// routes have a text of their own each: only the normalising cache
		// shares anything between them
		if (route == "variable") != (mode == "plain") {
			continue
		}
		var r *harness.Run
		if c.Guard("panic:PlanCache.Get+ExecutePlan", text, func() { r = harness.ViaCache(env, cache, text, "", vars, nil, nil) }) {
			continue
		}
		c.Eval(1)
		c.Feature("cache-route:" + mode)
		a, n := argsAt(r, field)
		failed := r.Result.Data == nil && len(r.Result.Errors) > 0
		inf := info
		inf.Route = route + " via PlanCache(" + mode + ")"
		switch {
		case failed != refFailed:
			c.Violation("cache-route:verdict", fmt.Sprintf("%s: Do answers %s, the %s cache route answers %s", route, trunc(respcmp.Canon(ref.Result)), mode, trunc(respcmp.Canon(r.Result))), inf)
		case n != refN:
			c.Violation("cache-route:invocations", fmt.Sprintf("%s: %d resolver invocations through Do, %d through the %s cache route", route, refN, n, mode), inf)
		case harness.CanonArgs(a) != harness.CanonArgs(refArgs):
			c.Violation("cache-route:args", fmt.Sprintf("%s: the resolver received %s through Do and %s through the %s cache route", route, harness.CanonArgs(refArgs), harness.CanonArgs(a), mode), inf)
		case respcmp.Canon(r.Result.Data) != respcmp.Canon(ref.Result.Data):
			c.Violation("cache-route:data", fmt.Sprintf("%s: data %s through Do, %s through the %s cache route", route, trunc(respcmp.Canon(ref.Result.Data)), trunc(respcmp.Canon(r.Result.Data)), mode), inf)
		}
	}
}

func argsAt(r *harness.Run, field string) (map[string]interface{}, int) {
	n := 0
	var a map[string]interface{}
	for _, e := range harness.Resolves(r.Events) {
		n++
		if e.Field == field {
			a = e.Args
		}
	}
	return a, n
}

func runValue(c *core.Child, env *build.Env, m *model.Schema, f *model.FieldDef, val interface{}, conformant bool, id string) {
	arg := f.Args[0]
	t := arg.Type
	tn := t.String()
	hashBase := m.SDL() + "\x00" + f.Name + "\x00" + harness.CanonArgs(val)
	nontrivial := t.Kind != "named" || !model.IsBuiltinScalar(t.Name) || arg.HasDefault || !conformant
	report := func(route, text, sig, msg string) {
		c.Violation(sig, route+": "+msg, caseInfo{Type: tn, Default: arg.Default, Value: val, Route: route, Document: text, Schema: m.SDL()})
	}
	// ---- route A: through a variable
	textVar := fmt.Sprintf("query($x: %s) { %s(a: $x) }", tn, f.Name)
	docVar, perr := syntax.Parse([]byte(textVar))
	if perr != nil {
		c.Violation("harness:ref-parse", perr.Msg, textVar)
		return
	}
	vars := map[string]interface{}{}
	if val != nil {
		vars["x"] = val
	}
	exp := exec.Execute(m, docVar, "", vars, nil, env.Seed)
	var rVar *harness.Run
	if c.Guard("panic:Do", textVar, func() { rVar = harness.Do(env, textVar, "", vars, nil, nil) }) {
		return
	}
	c.Eval(1)
	if nontrivial {
		c.Nontrivial(core.HashString(hashBase + "var"))
	}
	c.Feature("variable-status:" + exp.VarStatus.String())
	gotArgs, ninv := argsAt(rVar, f.Name)
	baseInfo := caseInfo{Type: tn, Default: arg.Default, Value: val, Document: textVar, Schema: m.SDL()}
	cacheRoutes(c, env, f.Name, "variable", textVar, vars, rVar, baseInfo)
	switch exp.VarStatus {
	case coerce.Invalid:
		if rVar.Result.Data != nil || len(rVar.Result.Errors) == 0 {
			report("variable", textVar, "accepted-invalid-variable", fmt.Sprintf("value %s cannot be coerced to %s but the response is %s", harness.CanonArgs(val), tn, respcmp.Canon(rVar.Result)))
		}
		if ninv > 0 {
			report("variable", textVar, "resolver-ran-with-invalid-variable", fmt.Sprintf("%d resolver invocations although variable $x is invalid", ninv))
		}
		subscribeRoute(c, env, f, tn, vars, nil, report)
		return
	case coerce.DontCare:
		c.DontCare("lenient-scalar-coercion")
		if rVar.Result.Data == nil && len(rVar.Result.Errors) == 0 {
			report("variable", textVar, "no-data-no-error", "neither data nor error")
		}
		return
	}
	for _, mm := range respcmp.Compare(exp, rVar.Result) {
		report("variable", textVar, "mismatch:"+mm.Class, mm.Msg)
	}
	for _, mm := range harness.CompareInvocations(exp, rVar.Events, true) {
		report("variable", textVar, "mismatch:"+mm.Class, mm.Msg)
	}
	subscribeRoute(c, env, f, tn, vars, gotArgs, report)
	if !conformant {
		return
	}
	// ---- route E: the same list value as a typed Go slice ([]string, []int,
	// [][]int …, also behind a pointer) instead of []interface{}
	if tv, ok := typedVariant(val); ok {
		for vi, v2 := range []interface{}{tv, ptrTo(tv)} {
			var r2 *harness.Run
			vars2 := map[string]interface{}{"x": v2}
			if c.Guard("panic:Do", textVar, func() { r2 = harness.Do(env, textVar, "", vars2, nil, nil) }) {
				break
			}
			c.Eval(1)
			c.Feature("route:typed-go-slice")
			a2, _ := argsAt(r2, f.Name)
			if harness.CanonArgs(a2) != harness.CanonArgs(gotArgs) {
				report("typed-slice-vs-generic", textVar, "metamorphic:typed-slice-vs-generic", fmt.Sprintf("the value as %T (variant %d) gives resolver args %s, as []interface{} it gives %s (response %s)", v2, vi, harness.CanonArgs(a2), harness.CanonArgs(gotArgs), respcmp.Canon(r2.Result)))
			}
		}
	}
	// ---- route F: the probed argument next to a second one (other: Int = 99)
	// in every literal / variable mix and both orders: an argument written as a
	// literal keeps its value whatever its neighbour is made of, an argument not
	// written takes its default
	if len(f.Args) > 1 && val != nil {
		mixes := []struct {
			text string
			vars map[string]interface{}
		}{
			{fmt.Sprintf("query($x: %s) { %s(a: $x, other: 5) }", tn, f.Name), map[string]interface{}{"x": val}},
			{fmt.Sprintf("query($x: %s) { %s(other: 5, a: $x) }", tn, f.Name), map[string]interface{}{"x": val}},
			{fmt.Sprintf("query($x: %s, $o: Int) { %s(a: $x, other: $o) }", tn, f.Name), map[string]interface{}{"x": val, "o": 6}},
			{fmt.Sprintf("query($x: %s, $o: Int) { %s(a: $x, other: $o) }", tn, f.Name), map[string]interface{}{"x": val}},
		}
		if lit, ok := literalOf(m, t, val); ok {
			mixes = append(mixes, struct {
				text string
				vars map[string]interface{}
			}{fmt.Sprintf("query($o: Int) { %s(a: %s, other: $o) }", f.Name, nast.PrintValue(lit)), map[string]interface{}{"o": 6}})
			mixes = append(mixes, struct {
				text string
				vars map[string]interface{}
			}{fmt.Sprintf("query($o: Int = 8) { %s(other: $o, a: %s) }", f.Name, nast.PrintValue(lit)), nil})
		}
		for _, mx := range mixes {
			docM, perr := syntax.Parse([]byte(mx.text))
			if perr != nil {
				c.Violation("harness:ref-parse", perr.Msg, mx.text)
				continue
			}
			expM := exec.Execute(m, docM, "", mx.vars, nil, env.Seed)
			if expM.VarStatus != coerce.OK {
				continue
			}
			var rM *harness.Run
			if c.Guard("panic:Do", mx.text, func() { rM = harness.Do(env, mx.text, "", mx.vars, nil, nil) }) {
				continue
			}
			c.Eval(1)
			c.Feature("route:mixed-literal-and-variable-arguments")
			for _, mm := range respcmp.Compare(expM, rM.Result) {
				report("mixed-arguments", mx.text, "mismatch:"+mm.Class, mm.Msg)
			}
			for _, mm := range harness.CompareInvocations(expM, rM.Events, true) {
				report("mixed-arguments", mx.text, "mismatch:"+mm.Class, mm.Msg)
			}
		}
	}
	c.Sample("routes", map[string]interface{}{"type": tn, "value": val, "arg_default": arg.Default, "resolver_args": harness.CanonArgs(gotArgs)})
	// ---- route B: the same value as an inline literal
	lit, ok := literalOf(m, t, val)
	if val == nil {
		// no literal: the argument is simply omitted
		textOmit := fmt.Sprintf("{ %s }", f.Name)
		if t.Kind != "nonnull" {
			var r2 *harness.Run
			if !c.Guard("panic:Do", textOmit, func() { r2 = harness.Do(env, textOmit, "", nil, nil, nil) }) {
				c.Eval(1)
				baseInfo.Document = textOmit
				cacheRoutes(c, env, f.Name, "omitted", textOmit, nil, r2, baseInfo)
				a2, _ := argsAt(r2, f.Name)
				if harness.CanonArgs(a2) != harness.CanonArgs(gotArgs) {
					report("omitted-vs-absent-variable", textOmit, "metamorphic:omitted-vs-variable", fmt.Sprintf("argument omitted gives %s, absent variable gives %s", harness.CanonArgs(a2), harness.CanonArgs(gotArgs)))
				}
			}
		}
		return
	}
	if !ok {
		c.DontCare("value-has-no-literal-form (null inside a list)")
		return
	}
	litText := nast.PrintValue(lit)
	textLit := fmt.Sprintf("{ %s(a: %s) }", f.Name, litText)
	docLit, perr := syntax.Parse([]byte(textLit))
	if perr != nil {
		c.Violation("harness:ref-parse", perr.Msg, textLit)
		return
	}
	expLit := exec.Execute(m, docLit, "", nil, nil, env.Seed)
	var rLit *harness.Run
	if c.Guard("panic:Do", textLit, func() { rLit = harness.Do(env, textLit, "", nil, nil, nil) }) {
		return
	}
	c.Eval(1)
	for _, mm := range respcmp.Compare(expLit, rLit.Result) {
		report("literal", textLit, "mismatch:"+mm.Class, mm.Msg)
	}
	for _, mm := range harness.CompareInvocations(expLit, rLit.Events, true) {
		report("literal", textLit, "mismatch:"+mm.Class, mm.Msg)
	}
	baseInfo.Document = textLit
	cacheRoutes(c, env, f.Name, "literal", textLit, nil, rLit, baseInfo)
	aLit, _ := argsAt(rLit, f.Name)
	if harness.CanonArgs(aLit) != harness.CanonArgs(gotArgs) {
		report("literal-vs-variable", textLit, "metamorphic:literal-vs-variable", fmt.Sprintf("literal gives resolver args %s, the same value through a variable gives %s", harness.CanonArgs(aLit), harness.CanonArgs(gotArgs)))
	}
	if nontrivial {
		c.Nontrivial(core.HashString(hashBase + "lit"))
	}
	// ---- route C: as the variable's default, no variables supplied
	if t.Kind != "nonnull" {
		textDef := fmt.Sprintf("query($x: %s = %s) { %s(a: $x) }", tn, litText, f.Name)
		var rDef *harness.Run
		if c.Guard("panic:Do", textDef, func() { rDef = harness.Do(env, textDef, "", nil, nil, nil) }) {
			return
		}
		c.Eval(1)
		baseInfo.Document = textDef
		cacheRoutes(c, env, f.Name, "variable-default", textDef, nil, rDef, baseInfo)
		aDef, _ := argsAt(rDef, f.Name)
		if harness.CanonArgs(aDef) != harness.CanonArgs(gotArgs) {
			report("default-vs-variable", textDef, "metamorphic:default-vs-variable", fmt.Sprintf("variable default gives resolver args %s, the same value as variable value gives %s (response %s)", harness.CanonArgs(aDef), harness.CanonArgs(gotArgs), respcmp.Canon(rDef.Result)))
		}
		if nontrivial {
			c.Nontrivial(core.HashString(hashBase + "def"))
		}
	}
}

// subscribeRoute: the same variable through a subscription operation. The
// Subscribe function must receive exactly the argument map the field
// resolver of the query received (want != nil), or must not run at all when
// the variable is invalid (want == nil).
func subscribeRoute(c *core.Child, env *build.Env, f *model.FieldDef, tn string, vars map[string]interface{}, want map[string]interface{}, report func(route, text, sig, msg string)) {
	text := fmt.Sprintf("subscription($x: %s) { %s(a: $x) }", tn, f.Name)
	var run *harness.Run
	if c.Guard("panic:Subscribe", text, func() { run, _ = harness.Subscribe(env, text, "", vars, nil, nil) }) {
		return
	}
	c.Eval(1)
	var subs, resolves []build.Event
	for _, e := range run.Events {
		switch e.Kind {
		case "subscribe":
			subs = append(subs, e)
		case "resolve":
			resolves = append(resolves, e)
		}
	}
	if want == nil {
		c.Feature("subscribe-route:invalid-variable")
		if len(subs)+len(resolves) > 0 {
			report("subscription", text, "resolver-ran-with-invalid-variable", fmt.Sprintf("%d Subscribe / %d resolver invocations although variable $x is invalid", len(subs), len(resolves)))
		}
		if run.Result == nil || len(run.Result.Errors) == 0 {
			report("subscription", text, "accepted-invalid-variable", "subscription with an invalid variable produced no error")
		}
		return
	}
	c.Feature("subscribe-route:valid-variable")
	if len(subs) != 1 {
		report("subscription", text, "subscribe-invocations", fmt.Sprintf("%d Subscribe invocations, want 1", len(subs)))
		return
	}
	if got := harness.CanonArgs(subs[0].Args); got != harness.CanonArgs(want) {
		report("subscription", text, "metamorphic:subscribe-vs-query", fmt.Sprintf("the Subscribe function received %s, the query resolver received %s for the same variable", got, harness.CanonArgs(want)))
	}
	// the one source event is executed with the same (once-coerced) variables
	if len(resolves) != 1 || run.Result == nil || len(run.Result.Errors) > 0 || run.Result.Data == nil {
		msg := "no result"
		if run.Result != nil {
			msg = respcmp.Canon(run.Result)
		}
		report("subscription", text, "subscription-event-execution", fmt.Sprintf("the event of a subscription whose variable coerces was answered with %s (%d field resolver invocations, want 1 and no error)", msg, len(resolves)))
	}
	for _, e := range resolves {
		if got := harness.CanonArgs(e.Args); got != harness.CanonArgs(want) {
			report("subscription", text, "metamorphic:subscription-resolver-vs-query", fmt.Sprintf("the subscription field resolver received %s, the query resolver received %s", got, harness.CanonArgs(want)))
		}
	}
}

// typedVariant converts a homogeneous []interface{} (of strings, ints, bools,
// float64s or of such lists) into the corresponding typed Go slice.
func typedVariant(v interface{}) (interface{}, bool) {
	xs, ok := v.([]interface{})
	if !ok || len(xs) == 0 {
		return nil, false
	}
	switch xs[0].(type) {
	case string:
		out := make([]string, 0, len(xs))
		for _, x := range xs {
			s, ok := x.(string)
			if !ok {
				return nil, false
			}
			out = append(out, s)
		}
		return out, true
	case int:
		out := make([]int, 0, len(xs))
		for _, x := range xs {
			s, ok := x.(int)
			if !ok {
				return nil, false
			}
			out = append(out, s)
		}
		return out, true
	case bool:
		out := make([]bool, 0, len(xs))
		for _, x := range xs {
			s, ok := x.(bool)
			if !ok {
				return nil, false
			}
			out = append(out, s)
		}
		return out, true
	case float64:
		out := make([]float64, 0, len(xs))
		for _, x := range xs {
			s, ok := x.(float64)
			if !ok {
				return nil, false
			}
			out = append(out, s)
		}
		return out, true
	case map[string]interface{}:
		out := make([]map[string]interface{}, 0, len(xs))
		for _, x := range xs {
			s, ok := x.(map[string]interface{})
			if !ok {
				return nil, false
			}
			out = append(out, s)
		}
		return out, true
	case []interface{}:
		// [][]T when every inner list converts to the same element type
		var outS [][]string
		var outI [][]int
		for _, x := range xs {
			in, ok := typedVariant(x)
			if !ok {
				return nil, false
			}
			switch t := in.(type) {
			case []string:
				outS = append(outS, t)
			case []int:
				outI = append(outI, t)
			default:
				return nil, false
			}
		}
		if len(outS) == len(xs) {
			return outS, true
		}
		if len(outI) == len(xs) {
			return outI, true
		}
	}
	return nil, false
}

func ptrTo(v interface{}) interface{} {
	switch t := v.(type) {
	case []string:
		return &t
	case []int:
		return &t
	case []bool:
		return &t
	case []float64:
		return &t
	case []map[string]interface{}:
		return &t
	case [][]string:
		return &t
	case [][]int:
		return &t
	}
	return v
}

// hostile numeric / string literal texts: whether each is a valid literal of
// the argument's type is decided by the reference (coerce.ValidLiteral); an
// invalid one must be refused before any resolver runs, a valid one must
// reach the resolver as the reference coerces it.
var literalTexts = []string{
	"1e999", "-1e999", "1.7976931348623159e308", "1.7976931348623157e308", "4.9e-324", "1e-999", "0.0", "-0", "-0.0", "1E5", "1e+5",
	"2147483647", "2147483648", "-2147483648", "-2147483649", "99999999999", "9223372036854775808", "-9223372036854775809",
	"1" + strings.Repeat("0", 400), "0.1" + strings.Repeat("0", 400) + "1",
	`"1e999"`, `"NaN"`, `"Inf"`, `"2147483648"`, `""`, `true`, `NaN`, `Infinity`, `[1e999]`, `[2147483648]`, `[[1]]`, `{}`,
}

func hostileLiterals(c *core.Child, env *build.Env, m *model.Schema, f *model.FieldDef, idPrefix string) {
	arg := f.Args[0]
	base := arg.Type.Base()
	if !model.IsBuiltinScalar(base) && base != "Tag" {
		return
	}
	for li, lit := range literalTexts {
		id := fmt.Sprintf("%s%d", idPrefix, li)
		if !c.Begin(id) {
			continue
		}
		text := fmt.Sprintf("{ %s(a: %s) }", f.Name, lit)
		doc, perr := syntax.Parse([]byte(text))
		if perr != nil {
			continue // not a literal at all (NaN / Infinity are names: enum literals — still parsed)
		}
		var node nast.Node
		for _, def := range doc.Defs {
			if op, ok := def.(*nast.Operation); ok {
				node = op.Sel.Items[0].(*nast.Field).Args[0].Value
			}
		}
		valid := coerce.ValidLiteral(m, arg.Type, node)
		var r *harness.Run
		if c.Guard("panic:Do", text, func() { r = harness.Do(env, text, "", nil, nil, nil) }) {
			continue
		}
		c.Eval(1)
		c.Feature(fmt.Sprintf("hostile-literal:valid=%v", valid))
		c.Nontrivial(core.HashString("lit\x00" + arg.Type.String() + "\x00" + lit))
		info := caseInfo{Type: arg.Type.String(), Value: lit, Route: "hostile-literal", Document: text}
		cacheRoutes(c, env, f.Name, "hostile-literal", text, nil, r, info)
		_, ninv := argsAt(r, f.Name)
		if !valid {
			if r.Result.Data != nil || len(r.Result.Errors) == 0 || ninv > 0 {
				c.Violation("accepted-invalid-literal", fmt.Sprintf("literal %s is not a valid %s but the response is %s (%d resolver invocations)", trunc(lit), arg.Type, respcmp.Canon(r.Result), ninv), info)
			}
			continue
		}
		exp := exec.Execute(m, doc, "", nil, nil, env.Seed)
		for _, mm := range respcmp.Compare(exp, r.Result) {
			c.Violation("mismatch:"+mm.Class, "hostile-literal: "+mm.Msg, info)
		}
		for _, mm := range harness.CompareInvocations(exp, r.Events, true) {
			c.Violation("mismatch:"+mm.Class, "hostile-literal: "+mm.Msg, info)
		}
	}
}

func trunc(s string) string {
	if len(s) > 80 {
		return s[:80] + "…"
	}
	return s
}

// partialVariables: an input-object (or list) LITERAL some of whose fields /
// elements are variables, supplied or not. An unprovided variable means "no
// value": the input field's default applies, exactly as when the field is
// not written at all.
func partialVariables(c *core.Child, env *build.Env, m *model.Schema, f *model.FieldDef, idPrefix string) {
	arg := f.Args[0]
	t := arg.Type
	if t.Kind == "nonnull" {
		t = t.Of
	}
	if t.Kind != "named" {
		return
	}
	td := m.Type(t.Name)
	if td == nil || td.Kind != model.InputObject {
		return
	}
	r := core.NewRNG(core.HashString(idPrefix + m.SDL()))
	for k := 0; k < 6; k++ {
		id := fmt.Sprintf("%s%d", idPrefix, k)
		if !c.Begin(id) {
			continue
		}
		// a conformant object value; each field either literal, or a variable that is supplied, or a variable that is NOT supplied
		val, _ := typedoc.VarValue(r, m, t, 3).(map[string]interface{})
		if val == nil {
			continue
		}
		var defs []string
		vars := map[string]interface{}{}
		nvar := 0
		// render writes the object value val of input type otd as a literal whose
		// fields are literals, supplied variables or unprovided variables; fields
		// of input-object type are rendered as nested literals of the same kind
		var render func(otd *model.TypeDef, val map[string]interface{}, depth int) (string, bool)
		render = func(otd *model.TypeDef, val map[string]interface{}, depth int) (string, bool) {
			var fields []string
			for _, fd := range otd.InputFields {
				fv, has := val[fd.Name]
				mode := r.Intn(4)
				if fd.Type.Kind == "nonnull" && (!has || mode == 3) {
					mode = 0
				}
				vn := fmt.Sprintf("x%d", nvar)
				ft := fd.Type
				if ft.Kind == "nonnull" {
					ft = ft.Of
				}
				nested := m.Type(ft.Name)
				if sub, ok := fv.(map[string]interface{}); ok && has && depth < 3 && ft.Kind == "named" && nested != nil && nested.Kind == model.InputObject && r.Chance(60) {
					lit, ok := render(nested, sub, depth+1)
					if !ok {
						return "", false
					}
					fields = append(fields, fmt.Sprintf("%s: %s", fd.Name, lit))
					continue
				}
				switch {
				case mode == 3: // variable, not supplied
					nvar++
					defs = append(defs, fmt.Sprintf("$%s: %s", vn, fd.Type.String()))
					fields = append(fields, fmt.Sprintf("%s: $%s", fd.Name, vn))
				case !has:
					// field not written
				case mode == 2: // variable, supplied
					nvar++
					defs = append(defs, fmt.Sprintf("$%s: %s", vn, fd.Type.String()))
					fields = append(fields, fmt.Sprintf("%s: $%s", fd.Name, vn))
					vars[vn] = fv
				default:
					lit, ok := literalOf(m, fd.Type, fv)
					if !ok {
						return "", false
					}
					fields = append(fields, fmt.Sprintf("%s: %s", fd.Name, nast.PrintValue(lit)))
				}
			}
			return "{" + strings.Join(fields, ", ") + "}", true
		}
		objLit, ok := render(td, val, 0)
		if !ok {
			continue
		}
		head := ""
		if len(defs) > 0 {
			head = "query(" + strings.Join(defs, ", ") + ") "
		}
		text := fmt.Sprintf("%s{ %s(a: %s) }", head, f.Name, objLit)
		doc, perr := syntax.Parse([]byte(text))
		if perr != nil {
			c.Violation("harness:ref-parse", perr.Msg, text)
			continue
		}
		exp := exec.Execute(m, doc, "", vars, nil, env.Seed)
		if exp.VarStatus != coerce.OK {
			continue
		}
		var run *harness.Run
		if c.Guard("panic:Do", text, func() { run = harness.Do(env, text, "", vars, nil, nil) }) {
			continue
		}
		c.Eval(1)
		c.Feature("partial-variable-object-literal")
		c.Nontrivial(core.HashString("pv\x00" + text + harness.CanonArgs(vars)))
		info := caseInfo{Type: arg.Type.String(), Value: vars, Route: "object literal with variable fields", Document: text, Schema: m.SDL()}
		cacheRoutes(c, env, f.Name, "partial-variables", text, vars, run, info)
		for _, mm := range respcmp.Compare(exp, run.Result) {
			c.Violation("mismatch:"+mm.Class, "partial-variables: "+mm.Msg, info)
		}
		for _, mm := range harness.CompareInvocations(exp, run.Events, true) {
			c.Violation("mismatch:"+mm.Class, "partial-variables: "+mm.Msg, info)
		}
	}
}
