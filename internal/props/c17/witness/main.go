// Command witness prints minimal, harness-free witnesses of the C17 defect
// classes listed in ../README.md:  cd /verif && go run ./internal/props/c17/witness
package main

import (
	"context"
	"fmt"

	"github.com/graphql-go/graphql"
	"github.com/graphql-go/graphql/gqlerrors"
)

type ext struct{ id, name, panicIn string }

func (e *ext) hook(h string) {
	fmt.Printf("  %s.%s\n", e.id, h)
	if e.panicIn == h {
		panic("boom in " + e.id + "." + h)
	}
}
func (e *ext) Init(ctx context.Context, p *graphql.Params) context.Context { return ctx }
func (e *ext) Name() string                                                { return e.name }
func (e *ext) HasResult() bool                                             { return false }
func (e *ext) GetResult(context.Context) interface{}                       { return nil }
func (e *ext) ParseDidStart(ctx context.Context) (context.Context, graphql.ParseFinishFunc) {
	e.hook("ParseDidStart")
	return ctx, func(error) { e.hook("ParseFinish") }
}
func (e *ext) ValidationDidStart(ctx context.Context) (context.Context, graphql.ValidationFinishFunc) {
	e.hook("ValidationDidStart")
	return ctx, func([]gqlerrors.FormattedError) { e.hook("ValidationFinish") }
}
func (e *ext) ExecutionDidStart(ctx context.Context) (context.Context, graphql.ExecutionFinishFunc) {
	e.hook("ExecutionDidStart")
	return ctx, func(*graphql.Result) { e.hook("ExecutionFinish") }
}
func (e *ext) ResolveFieldDidStart(ctx context.Context, i *graphql.ResolveInfo) (context.Context, graphql.ResolveFieldFinishFunc) {
	e.hook("ResolveFieldDidStart " + fmt.Sprint(i.Path.AsArray()))
	return ctx, func(interface{}, error) { e.hook("ResolveFieldFinish " + fmt.Sprint(i.Path.AsArray())) }
}

func do(title, query string, exts ...graphql.Extension) {
	fmt.Println("==", title, "::", query)
	s, _ := graphql.NewSchema(graphql.SchemaConfig{Extensions: exts, Query: graphql.NewObject(graphql.ObjectConfig{Name: "Q", Fields: graphql.Fields{
		"a": &graphql.Field{Type: graphql.String, Resolve: func(graphql.ResolveParams) (interface{}, error) { return "A", nil }},
		"p": &graphql.Field{Type: graphql.String, Resolve: func(graphql.ResolveParams) (interface{}, error) { panic("resolver panics") }},
	}})})
	r := graphql.Do(graphql.Params{Schema: s, RequestString: query, Context: context.Background()})
	fmt.Println("  errors:", r.Errors)
}

func main() {
	// defect:didstart-panic-skips-other-finish:{parse,validation,execution}: B's started phase is never finished
	for _, h := range []string{"ParseDidStart", "ValidationDidStart", "ExecutionDidStart"} {
		do("A."+h+" panics", `{a}`, &ext{id: "A", name: "A", panicIn: h}, &ext{id: "B", name: "B"})
	}
	// defect:same-name-finish-lost:{parse,validation,execution,resolve}: X1 never sees a finish, no hook fails
	do("two extensions named X", `{a}`, &ext{id: "X1", name: "X"}, &ext{id: "X2", name: "X"})
	// defect:resolver-panic-skips-resolve-finish: ResolveFieldFinish [p] is never called
	do("resolver panics", `{p}`, &ext{id: "A", name: "A"})
}
