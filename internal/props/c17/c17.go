// Package c17 is the runtime monitor for property C17: extension hooks are
// balanced, ordered and fault-isolated. See README.md in this directory.
package c17

import (
	"context"
	"fmt"
	"runtime"
	"runtime/debug"
	"strings"
	"time"

	"github.com/graphql-go/graphql"
	"github.com/graphql-go/graphql/gqlerrors"
	"github.com/graphql-go/graphql/language/ast"
	"github.com/graphql-go/graphql/language/parser"

	"verif/internal/core"
)

func init() {
	core.Register(&core.Check{
		ID:    "C17",
		Level: "fault_enumeration",
		Technique: "runtime trace monitor: instrumented graphql.Extension implementations and an instrumented schema write one " +
			"mutex-protected, globally sequenced history per request; a per-extension trace specification (pipeline order, " +
			"started-phase-finished-exactly-once, nesting, finish outcomes, one resolve notification per resolver invocation, " +
			"every panicking hook reported, no panic out of the entry point) is decided on that history while single and " +
			"multiple hook panics with six kinds of panic value are injected",
		Rule: "a case = request (outcome class + document) x entry point (Do via SchemaConfig.Extensions / AddExtensions, Execute, " +
			"PlanQuery+ExecutePlan) x extension list (1-3 instances, distinct or shared names) x fault placement (extension, hook, " +
			"all-or-nth invocation) x panic value kind; single-hook faults are enumerated exhaustively for 1-2 extensions, 3 extensions " +
			"and multi-fault subsets are sampled from the seed. Non-trivial: >=1 extension and (a fault injected, or >=2 extensions, or " +
			">=3 resolver invocations). Distinct by FNV-1a of the canonical case description",
		Assumptions: []string{
			"hooks fail only by panicking at entry (before returning a finish function / a value); hooks that return nil finish functions or nil contexts are not exercised",
			"Name() is not in the property's fault list: a panicking Name() is executed and counted as don't-care only",
			"runtime panic(nil) semantics are those of go>=1.21 main modules (recover() yields *runtime.PanicNilError); with GODEBUG=panicnil=1 a nil panic is invisible to any recover-based library",
			"order in which different extensions are started/finished within a phase is not demanded by the property and not compared",
			"a request whose context is cancelled is outside the property's outcome list: only crash, balance of parse/validation/execution and the ExecutionFinish argument are judged there",
		},
		Batches:      func(tier string) int { return 8 },
		Run:          run,
		ChildTimeout: func(tier string) time.Duration { return 15 * time.Minute },
		MinEvals: func(tier string) int {
			if tier == "thorough" {
				return 100000
			}
			return 3000
		},
	})
}

var (
	cfg1     = []extSpec{{"A", true}}
	cfg2     = []extSpec{{"A", true}, {"B", true}}
	cfgSame  = []extSpec{{"A", true}, {"A", true}}
	cfg3     = []extSpec{{"A", true}, {"B", false}, {"C", true}}
	cfgSame3 = []extSpec{{"A", true}, {"B", true}, {"A", true}}
	allCfgs  = [][]extSpec{cfg1, cfg2, cfgSame, cfg3, cfgSame3}
)

// reachable lists the hooks a fault can be placed on for a class and entry.
func reachable(class, entry string) []string {
	var out []string
	for _, h := range allHooks {
		r := rank(h)
		if !isDo(entry) && r < 3 {
			continue
		}
		if r > reach(class) {
			continue
		}
		if (h == hRS || h == hRF) && !resolves(class) {
			continue
		}
		out = append(out, h)
	}
	return out
}

// genDocs derives n documents from the seed (same list in every child).
func genDocs(seed uint64, n int) []docSpec {
	var out []docSpec
	for i := 0; i < n; i++ {
		r := core.NewRNG(seed).Derive(core.HashString("C17/docs"), uint64(i))
		k := r.Range(1, 4)
		var names, aliases []string
		used := map[string]bool{}
		var lastAtom *atom
		for j := 0; j < k; j++ {
			a := atoms[r.Intn(len(atoms))]
			if a.last {
				if lastAtom == nil {
					aa := a
					lastAtom = &aa
				}
				continue
			}
			names = append(names, a.name)
		}
		if lastAtom != nil {
			names = append(names, lastAtom.name)
		}
		if len(names) == 0 {
			names = []string{"a"}
		}
		for j, n := range names {
			a := atomByName(n)
			key := a.field
			for x, ch := range key {
				if ch == '(' || ch == '{' {
					key = key[:x]
					break
				}
			}
			alias := ""
			if used[key] || r.Chance(40) {
				alias = fmt.Sprintf("k%d", j)
				key = alias
			}
			used[key] = true
			aliases = append(aliases, alias)
		}
		out = append(out, docFromAtoms(names, aliases))
	}
	return out
}

type job struct {
	id   string
	spec caseSpec
}

// jobs builds the whole case list of a tier (a function of seed and tier);
// each child executes the jobs whose running number falls into its batch.
//
// keep selects by running number which jobs are materialised (nil: all); the
// numbering does not depend on keep.
func jobs(seed uint64, thorough bool, keep func(i int) bool) []job {
	var out []job
	g := 0
	add := func(fam string, n int, mk func() caseSpec) {
		if keep == nil || keep(g) {
			out = append(out, job{id: fmt.Sprintf("%s/%d", fam, n), spec: mk()})
		}
		g++
	}
	docs := fixedDocs()
	nGen := 2
	if thorough {
		nGen = 100
	}
	docs = append(docs, genDocs(seed, nGen)...)
	doEntries := []string{enDoConfig, enDoAdd}

	// nf: no fault, every configuration and entry point
	n := 0
	for _, d := range docs {
		for ci, cfg := range allCfgs {
			for _, en := range []string{enDoConfig, enDoAdd, enExecute, enPlan, enPlanThenAdd} {
				if !isDo(en) && reach(d.Class) < 4 && d.Class != clPlanErr {
					continue
				}
				exts := append([]extSpec(nil), cfg...)
				if ci == 1 && en == enDoAdd {
					exts[1].HasRes = false
				}
				add("nf", n, func() caseSpec { return caseSpec{Doc: d, Entry: en, Exts: exts} })
				n++
			}
		}
	}
	add("nf", n, func() caseSpec {
		return caseSpec{Doc: docFromAtoms([]string{"a", "o2"}, nil), Entry: enPlanZero, Exts: cfg2}
	})
	n++

	// sf: every single-hook fault x every panic value, 1 and 2 extensions and two extensions sharing a name
	n = 0
	for _, d := range docs {
		for _, cfg := range [][]extSpec{cfg1, cfg2, cfgSame} {
			for ei := range cfg {
				for _, h := range reachable(d.Class, enDoConfig) {
					nths := []int{0}
					if (h == hRS || h == hRF) && len(d.Paths) >= 2 {
						nths = []int{0, 2}
					}
					for _, nth := range nths {
						for val := 0; val < nVals; val++ {
							add("sf", n, func() caseSpec {
								return caseSpec{Doc: d, Entry: doEntries[n%2], Exts: cfg, Faults: []fault{{Ext: ei, Hook: h, Nth: nth, Val: val}}}
							})
							n++
						}
					}
				}
			}
		}
	}

	// ep: Execute and PlanQuery+ExecutePlan directly (only execution, resolve and result hooks exist there)
	n = 0
	for _, d := range docs {
		if reach(d.Class) < 4 {
			continue
		}
		for _, en := range []string{enExecute, enPlan, enPlanThenAdd} {
			for _, cfg := range [][]extSpec{cfg1, cfg2, cfgSame} {
				for ei := range cfg {
					for _, h := range reachable(d.Class, en) {
						vals := []int{n % nVals}
						if thorough {
							vals = []int{0, 1, 2, 3, 4, 5}
						}
						for _, val := range vals {
							add("ep", n, func() caseSpec {
								return caseSpec{Doc: d, Entry: en, Exts: cfg, Faults: []fault{{Ext: ei, Hook: h, Val: val}}}
							})
							n++
						}
					}
				}
			}
		}
	}

	// x3: three extensions (distinct, and two of them sharing a name), sampled single faults
	n = 0
	per := 12
	if thorough {
		per = 120
	}
	for di, d := range docs {
		for ci, cfg := range [][]extSpec{cfg3, cfgSame3} {
			for k := 0; k < per; k++ {
				add("x3", n, func() caseSpec {
					r := core.NewRNG(seed).Derive(core.HashString("C17/x3"), uint64(di), uint64(ci), uint64(k))
					hs := reachable(d.Class, enDoConfig)
					f := fault{Ext: r.Intn(len(cfg)), Hook: hs[r.Intn(len(hs))], Val: r.Intn(nVals)}
					if (f.Hook == hRS || f.Hook == hRF) && r.Chance(50) {
						f.Nth = r.Range(1, 3)
					}
					return caseSpec{Doc: d, Entry: doEntries[r.Intn(2)], Exts: cfg, Faults: []fault{f}}
				})
				n++
			}
		}
	}

	// mf: random multi-fault subsets
	nm := 900
	if thorough {
		nm = 150000
	}
	for k := 0; k < nm; k++ {
		add("mf", k, func() caseSpec {
			r := core.NewRNG(seed).Derive(core.HashString("C17/mf"), uint64(k))
			d := docs[r.Intn(len(docs))]
			cfg := append([]extSpec(nil), allCfgs[r.Intn(len(allCfgs))]...)
			for i := range cfg {
				if r.Chance(25) {
					cfg[i].HasRes = !cfg[i].HasRes
				}
			}
			en := doEntries[r.Intn(2)]
			if reach(d.Class) >= 4 && r.Chance(30) {
				en = []string{enExecute, enPlan, enPlanThenAdd}[r.Intn(3)]
			}
			hs := reachable(d.Class, en)
			nf := r.Range(2, 4)
			var fs []fault
			seen := map[string]bool{}
			for len(fs) < nf {
				f := fault{Ext: r.Intn(len(cfg)), Hook: hs[r.Intn(len(hs))], Val: r.Intn(nVals)}
				if (f.Hook == hRS || f.Hook == hRF) && r.Chance(50) {
					f.Nth = r.Range(1, 3)
				}
				key := fmt.Sprintf("%d/%s", f.Ext, f.Hook)
				if seen[key] {
					nf-- // fewer distinct placements than asked for: keep what we have
					continue
				}
				seen[key] = true
				fs = append(fs, f)
			}
			return caseSpec{Doc: d, Entry: en, Exts: cfg, Faults: fs}
		})
	}

	// nm: Name() panicking (don't-care, recorded)
	n = 0
	for _, d := range []docSpec{docs[0], docFromAtoms([]string{"a", "o2"}, nil)} {
		for _, cfg := range [][]extSpec{cfg1, cfg2} {
			for nth := 0; nth <= 12; nth++ {
				add("nm", n, func() caseSpec {
					return caseSpec{Doc: d, Entry: doEntries[n%2], Exts: cfg, Faults: []fault{{Ext: 0, Hook: hName, Nth: nth, Val: n % nVals}}}
				})
				n++
			}
		}
	}

	// cx: context cancelled by a resolver while the request is executing
	n = 0
	for _, cfg := range allCfgs {
		for _, h := range []string{"", hRS, hRF, hEF, hHR, hGR} {
			s := caseSpec{Doc: cancelDoc(), Entry: doEntries[n%2], Exts: cfg}
			if h != "" {
				s.Faults = []fault{{Ext: n % len(cfg), Hook: h, Val: n % nVals}}
			}
			add("cx", n, func() caseSpec { return s })
			n++
		}
	}
	return out
}

type runner struct {
	c     *core.Child
	bases map[string]*baseline
	// reported counts violation records per signature: the driver keeps at most
	// 40 records per child, so a confirmed defect class that fires thousands of
	// times must not crowd out an unexplained signature. Every hit is still
	// counted in the feature histogram ("violation-hits:<sig>").
	reported map[string]int
}

func run(c *core.Child) {
	// one request at a time: the caller and the library's execution goroutine.
	// More Ps only add GC/scheduler wake-ups on the tiny per-case heaps.
	runtime.GOMAXPROCS(2)
	r := &runner{c: c, bases: map[string]*baseline{}, reported: map[string]int{}}
	for _, j := range jobs(c.Seed, !c.Quick(), func(i int) bool { return i%c.NBatches == c.Batch }) {
		if !c.Begin(j.id) {
			continue
		}
		r.runCase(j.spec)
	}
}

// invoke runs the case's request through its entry point.
func invoke(st *caseState, ctx context.Context) (*graphql.Result, error) {
	spec := st.spec
	exts := make([]graphql.Extension, len(spec.Exts))
	for i, e := range spec.Exts {
		exts[i] = &iext{idx: i, spec: e, st: st}
	}
	built := exts
	if spec.Entry == enPlanThenAdd {
		built = nil
	}
	schema, err := buildSchema(st, built, spec.Entry == enDoAdd)
	if err != nil {
		return nil, err
	}
	d := spec.Doc
	if isDo(spec.Entry) {
		return graphql.Do(graphql.Params{Schema: schema, RequestString: d.Text, VariableValues: d.Vars, OperationName: d.OpName, Context: ctx}), nil
	}
	var doc *ast.Document
	doc, err = parser.Parse(parser.ParseParams{Source: d.Text})
	if err != nil {
		return nil, fmt.Errorf("harness: document of class %s does not parse: %v", d.Class, err)
	}
	if spec.Entry == enExecute {
		return graphql.Execute(graphql.ExecuteParams{Schema: schema, AST: doc, OperationName: d.OpName, Args: d.Vars, Context: ctx}), nil
	}
	plan, perr := graphql.PlanQuery(&schema, doc, d.OpName)
	if perr != nil {
		return &graphql.Result{Errors: gqlerrors.FormatErrors(perr)}, nil
	}
	if spec.Entry == enPlanThenAdd {
		schema.AddExtensions(exts...)
	}
	ep := graphql.ExecuteParams{Schema: schema, AST: doc, OperationName: d.OpName, Args: d.Vars, Context: ctx}
	if spec.Entry == enPlanZero {
		ep.Schema = graphql.Schema{}
	}
	return graphql.ExecutePlan(plan, ep), nil
}

// baselineOf runs the request once without extensions.
func (r *runner) baselineOf(d docSpec) *baseline {
	if d.Class == clCancel {
		return nil
	}
	if b, ok := r.bases[d.key()]; ok {
		return b
	}
	st := &caseState{spec: caseSpec{Doc: d, Entry: enDoConfig}, log: newLog()}
	var b *baseline
	r.c.Guard("panic-escaped:baseline", d.key(), func() {
		res, err := invoke(st, context.Background())
		if err == nil && res != nil {
			b = &baseline{Data: jsonOf(res.Data), Msgs: messages(res)}
		}
	})
	r.bases[d.key()] = b
	return b
}

func (r *runner) runCase(spec caseSpec) {
	c := r.c
	desc := spec.String()
	st := &caseState{spec: spec, log: newLog()}
	ctx := context.Background()
	cancelled := spec.Doc.Class == clCancel
	if cancelled {
		var cf context.CancelFunc
		ctx, cf = context.WithCancel(ctx)
		defer cf()
		st.cancel = cf
		st.gate = make(chan struct{})
		st.done = make(chan struct{})
	}
	nameFault := false
	for _, f := range spec.Faults {
		if f.Hook == hName {
			nameFault = true
		}
	}

	c.Feature("class:" + spec.Doc.Class)
	c.Feature("entry:" + spec.Entry)
	c.Feature(fmt.Sprintf("extensions:%d", len(spec.Exts)))
	if spec.sameName() {
		c.Feature("extensions:shared-name")
	}
	if len(spec.Faults) > 1 {
		c.Feature("faults:multi")
	} else if len(spec.Faults) == 0 {
		c.Feature("faults:none")
	}
	for _, f := range spec.Faults {
		c.Feature("fault-hook:" + f.Hook)
		c.Feature("fault-value:" + valNames[f.Val])
	}

	var res *graphql.Result
	var herr error
	if nameFault {
		// Name() is outside the property's list of failing hooks: executed, recorded, not judged.
		site := ""
		func() {
			defer func() {
				if p := recover(); p != nil {
					site = core.PanicSite(string(debug.Stack()))
					if site == "" {
						site = "unknown"
					}
				}
			}()
			res, herr = invoke(st, ctx)
		}()
		c.Eval(1)
		if site != "" {
			c.DontCare("Name() panics: panic escaped the entry point at " + site)
		} else {
			c.DontCare("Name() panics: contained")
		}
		c.Nontrivial(core.HashString(desc))
		return
	}

	panicked := c.Guard("panic-escaped", desc, func() { res, herr = invoke(st, ctx) })
	c.Eval(1)
	if herr != nil {
		c.Violation("harness:setup", herr.Error(), desc)
		return
	}
	complete := true
	if cancelled {
		st.log.mark("entry-point-returned")
		close(st.gate)
		if !panicked {
			select {
			case <-st.done:
			case <-time.After(3 * time.Second):
				// the library stopped executing after the cancellation (or is stuck):
				// nothing below depends on it, the class is don't-care for late events
				complete = false
			}
		}
	}
	if panicked {
		return
	}
	calls := st.log.snapshot()
	obs := &observation{spec: spec, calls: calls, res: res, complete: complete}
	if !cancelled && spec.Entry != enPlanZero {
		obs.base = r.baselineOf(spec.Doc)
	}
	vs := classify(obs, analyse(obs))

	// evidence
	nres := 0
	counts := map[string]int64{}
	for i := range calls {
		counts[calls[i].Hook]++
		if calls[i].Ext == -1 && calls[i].Hook == hRes {
			nres++
		}
	}
	for _, h := range append(append([]string{}, allHooks...), hRes, hThunk) {
		if counts[h] > 0 {
			c.FeatureN("events:"+h, counts[h])
		}
	}
	fired := firedFaults(obs)
	for _, f := range fired {
		c.Feature("fault-fired:" + f.Hook)
	}
	if len(spec.Faults) > len(fired) {
		c.FeatureN("fault-placed-but-hook-not-reached", int64(len(spec.Faults)-len(fired)))
	}
	for _, f := range fired {
		if abortStage(f.Hook) < 99 {
			c.DontCare("request abandoned after a failing Init/Parse*/Validation*/ExecutionDidStart hook: response and later phases not compared")
			break
		}
	}
	if cancelled {
		c.DontCare("cancelled context: only crash, balance of parse/validation/execution and the ExecutionFinish argument judged")
		late := false
		efSeq := 0
		for i := range calls {
			if calls[i].Hook == hEF && efSeq == 0 {
				efSeq = calls[i].Enter
			}
		}
		for i := range calls {
			if (calls[i].Hook == hRS || calls[i].Hook == hRF) && efSeq > 0 && calls[i].Enter > efSeq {
				late = true
			}
		}
		if late {
			c.DontCare("cancelled context: resolve notifications delivered after ExecutionFinish (abandoned goroutine keeps running)")
		}
		if !complete {
			c.DontCare("cancelled context: abandoned execution did not reach its end within the wait")
		}
	}
	if spec.Entry == enPlanZero {
		c.DontCare("ExecutePlan with zero ExecuteParams.Schema: resolve notifications without an execution phase")
	}
	if spec.sameName() && reach(spec.Doc.Class) >= 4 {
		c.DontCare("shared name: which instance's GetResult lands in Result.Extensions")
	}
	if len(spec.Exts) >= 1 && (len(spec.Faults) > 0 || len(spec.Exts) >= 2 || nres >= 3) {
		c.Nontrivial(core.HashString(desc))
	}
	c.Sample(spec.Doc.Class, desc)

	if len(vs) == 0 {
		return
	}
	detail := map[string]interface{}{
		"case":    desc,
		"history": render(calls, spec.Exts),
		"errors":  messages(res),
	}
	if res != nil {
		detail["data"] = jsonOf(res.Data)
		detail["extensions"] = jsonOf(res.Extensions)
	}
	seen := map[string]bool{}
	for _, v := range vs {
		if seen[v.Sig] {
			continue // one record per signature and case
		}
		seen[v.Sig] = true
		c.Feature("violation-hits:" + v.Sig)
		limit := 3
		if strings.HasPrefix(v.Sig, "defect:") {
			limit = 2
		}
		if r.reported[v.Sig] >= limit && c.Only == "" {
			continue
		}
		r.reported[v.Sig]++
		c.Violation(v.Sig, v.Msg, detail)
	}
}
