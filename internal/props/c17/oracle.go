package c17

import (
	"fmt"
	"sort"
	"strings"

	"github.com/graphql-go/graphql"
)

// viol is one refutation found in a case's history, before it is mapped to a
// confirmed defect class (classify).
type viol struct {
	Sig  string
	Msg  string
	Kind string // "balance", "unattributed", ... (used by classify)
	Ext  int
	Hook string
	N    int  // observed count (balance)
	Aux  bool // balance of a resolve phase whose resolver panicked
	Idx  int  // resolve phase index (balance of ResolveFieldFinish)
}

// observation is everything the oracle looks at.
type observation struct {
	spec     caseSpec
	calls    []call
	res      *graphql.Result
	base     *baseline // outcome of the same request without extensions (nil: not applicable)
	complete bool      // history is complete (false only in the cancelled class when the abandoned goroutine never finished)
}

type baseline struct {
	Data string
	Msgs []string
}

type extView struct {
	by    map[string][]*call
	order []*call
}

func contains(xs []string, s string) bool {
	for _, x := range xs {
		if x == s {
			return true
		}
	}
	return false
}

func phaseOfFinish(h string) string {
	switch h {
	case hPF:
		return "parse"
	case hVF:
		return "validation"
	case hEF:
		return "execution"
	case hRF:
		return "resolve"
	}
	return h
}

// firedFaults returns, per injected fault, whether it fired.
func firedFaults(o *observation) []fault {
	var out []fault
	for _, f := range o.spec.Faults {
		if f.Hook == hName {
			continue
		}
		for i := range o.calls {
			c := &o.calls[i]
			if c.Ext == f.Ext && c.Hook == f.Hook && c.Panicked && (f.Nth == 0 || f.Nth == c.Nth) {
				out = append(out, f)
				break
			}
		}
	}
	return out
}

// analyse decides the trace specification of README "Oracle" on one history.
func analyse(o *observation) []viol {
	var vs []viol
	add := func(v viol) { vs = append(vs, v) }
	spec := o.spec
	class := spec.Doc.Class
	cancelled := class == clCancel
	do := isDo(spec.Entry)
	msgs := messages(o.res)

	fired := firedFaults(o)
	minAbort := 99
	for _, f := range fired {
		if s := abortStage(f.Hook); s < minAbort {
			minAbort = s
		}
	}
	aborted := minAbort < 99

	// resolver invocations, in order
	var R []*call
	for i := range o.calls {
		if o.calls[i].Ext == -1 && o.calls[i].Hook == hRes {
			R = append(R, &o.calls[i])
		}
	}

	views := make([]*extView, len(spec.Exts))
	for i := range views {
		views[i] = &extView{by: map[string][]*call{}}
	}
	for i := range o.calls {
		c := &o.calls[i]
		if c.Ext < 0 || c.Ext >= len(views) {
			continue
		}
		views[c.Ext].by[c.Hook] = append(views[c.Ext].by[c.Hook], c)
		views[c.Ext].order = append(views[c.Ext].order, c)
	}

	for ei, v := range views {
		tag := fmt.Sprintf("ext%d(%s)", ei, spec.Exts[ei].Name)

		// (A) a request starts each phase of an extension at most once
		for _, h := range []string{hInit, hPS, hVS, hES} {
			if n := len(v.by[h]); n > 1 {
				add(viol{Sig: "order", Kind: "order", Ext: ei, Hook: h, N: n, Msg: fmt.Sprintf("%s: %s called %d times in one request", tag, h, n)})
			}
		}

		// (B) pipeline order: ranks never decrease along the extension's history
		if !cancelled {
			last := -1
			lastHook := ""
			for _, c := range v.order {
				r := rank(c.Hook)
				if r < last {
					add(viol{Sig: "order", Kind: "order", Ext: ei, Hook: c.Hook, Msg: fmt.Sprintf("%s: %s (seq %d) came after %s: pipeline order init<parse<validation<execution<result collection violated", tag, c.Hook, c.Enter, lastHook)})
					break
				}
				if r > last {
					last, lastHook = r, c.Hook
				}
			}
		}

		// (C) balance and nesting of parse / validation / execution
		type ph struct{ s, f string }
		for _, p := range []ph{{hPS, hPF}, {hVS, hVF}, {hES, hEF}} {
			starts, fins := v.by[p.s], v.by[p.f]
			if len(starts) == 0 {
				if len(fins) > 0 {
					add(viol{Sig: "nesting", Kind: "nesting", Ext: ei, Hook: p.f, Msg: fmt.Sprintf("%s: %s called although %s never was", tag, p.f, p.s)})
				}
				continue
			}
			st := starts[0]
			if st.Panicked {
				// never started: the library holds no finish function
				continue
			}
			if len(fins) != 1 {
				add(viol{Sig: "balance:" + p.f, Kind: "balance", Ext: ei, Hook: p.f, N: len(fins),
					Msg: fmt.Sprintf("%s: %s phase was started (%s returned a finish function) but its finish function was called %d times", tag, phaseOfFinish(p.f), p.s, len(fins))})
			}
			for _, f := range fins {
				if f.Enter < st.End {
					add(viol{Sig: "nesting", Kind: "nesting", Ext: ei, Hook: p.f, Msg: fmt.Sprintf("%s: %s (seq %d) before %s returned (seq %d)", tag, p.f, f.Enter, p.s, st.End)})
				}
			}
		}

		// (D) resolve notifications inside the execution phase
		if !cancelled {
			es, ef := v.by[hES], v.by[hEF]
			for _, h := range []string{hRS, hRF} {
				for _, c := range v.by[h] {
					if len(es) > 0 && c.Enter < es[0].End {
						add(viol{Sig: "nesting", Kind: "nesting", Ext: ei, Hook: h, Msg: fmt.Sprintf("%s: %s %s before ExecutionDidStart returned", tag, h, c.Path)})
					}
					if len(ef) > 0 && (c.End == 0 || c.End > ef[0].Enter) {
						add(viol{Sig: "nesting", Kind: "nesting", Ext: ei, Hook: h, Msg: fmt.Sprintf("%s: %s %s not finished before ExecutionFinish", tag, h, c.Path)})
					}
					if len(es) == 0 && spec.Entry != enPlanZero {
						add(viol{Sig: "nesting", Kind: "nesting", Ext: ei, Hook: h, Msg: fmt.Sprintf("%s: %s %s outside any execution phase", tag, h, c.Path)})
					}
				}
			}
		}

		// (E) one resolve notification per resolver invocation, each pair
		// bracketing exactly its invocation, finish receiving what the resolver returned
		if !cancelled {
			S, F := v.by[hRS], v.by[hRF]
			if len(S) != len(R) {
				add(viol{Sig: "resolve-count", Kind: "resolve-count", Ext: ei, Hook: hRS, N: len(S),
					Msg: fmt.Sprintf("%s: %d ResolveFieldDidStart notifications for %d resolver invocations", tag, len(S), len(R))})
			} else {
				for i := range S {
					s, r := S[i], R[i]
					if s.Path != r.Path {
						add(viol{Sig: "resolve-count", Kind: "resolve-count", Ext: ei, Hook: hRS, Msg: fmt.Sprintf("%s: notification #%d is for path %s but resolver invocation #%d ran at %s", tag, i+1, s.Path, i+1, r.Path)})
						break
					}
					if !(s.End < r.Enter) {
						add(viol{Sig: "nesting", Kind: "nesting", Ext: ei, Hook: hRS, Msg: fmt.Sprintf("%s: resolver at %s entered (seq %d) before ResolveFieldDidStart returned (seq %d)", tag, r.Path, r.Enter, s.End)})
					}
					hi := int(^uint(0) >> 1)
					if i+1 < len(S) {
						hi = S[i+1].Enter
						if !(r.End != 0 && r.End < hi) {
							add(viol{Sig: "nesting", Kind: "nesting", Ext: ei, Hook: hRS, Msg: fmt.Sprintf("%s: next notification (%s) started before the resolver at %s returned", tag, S[i+1].Path, r.Path)})
						}
					}
					var fi []*call
					for _, f := range F {
						if f.Enter > s.Enter && f.Enter < hi {
							fi = append(fi, f)
						}
					}
					if s.Panicked {
						if len(fi) != 0 {
							add(viol{Sig: "nesting", Kind: "nesting", Ext: ei, Hook: hRF, Msg: fmt.Sprintf("%s: a resolve finish function ran for %s although ResolveFieldDidStart panicked", tag, s.Path)})
						}
						continue
					}
					if len(fi) != 1 {
						add(viol{Sig: "balance:" + hRF, Kind: "balance", Ext: ei, Hook: hRF, N: len(fi), Aux: r.Panicked, Idx: i,
							Msg: fmt.Sprintf("%s: resolve phase of %s was started but its finish function was called %d times", tag, s.Path, len(fi))})
					}
					for _, f := range fi {
						if !(r.End != 0 && r.End < f.Enter) {
							add(viol{Sig: "nesting", Kind: "nesting", Ext: ei, Hook: hRF, Msg: fmt.Sprintf("%s: resolve finish of %s ran before its resolver returned", tag, s.Path)})
						}
						if !r.Panicked && f.Arg != r.Arg {
							add(viol{Sig: "outcome:" + hRF, Kind: "outcome", Ext: ei, Hook: hRF, Msg: fmt.Sprintf("%s: resolve finish of %s received (%s) but the resolver returned (%s)", tag, s.Path, f.Arg, r.Arg)})
						}
					}
				}
			}
		}

		// (F) outcomes handed to the finish functions. A phase that the library
		// gave up because another extension's start hook failed has no outcome of
		// its own: what its finish functions receive then is not stated (don't-care).
		for _, f := range v.by[hPF] {
			if firedHook(fired, hPS) {
				break
			}
			if want := class == clSyntax; f.ErrNil == want {
				add(viol{Sig: "outcome:" + hPF, Kind: "outcome", Ext: ei, Hook: hPF, Msg: fmt.Sprintf("%s: ParseFinish received err==nil:%v for a request of class %s", tag, f.ErrNil, class)})
			} else if want && !contains(msgs, f.Arg) {
				add(viol{Sig: "outcome:" + hPF, Kind: "outcome", Ext: ei, Hook: hPF, Msg: fmt.Sprintf("%s: ParseFinish received an error the result does not report: %q", tag, f.Arg)})
			}
		}
		for _, f := range v.by[hVF] {
			if firedHook(fired, hVS) {
				break
			}
			if class == clValidation {
				if len(f.Msgs) == 0 {
					add(viol{Sig: "outcome:" + hVF, Kind: "outcome", Ext: ei, Hook: hVF, Msg: tag + ": ValidationFinish received no errors for an invalid document"})
				}
				for _, m := range f.Msgs {
					if !contains(msgs, m) {
						add(viol{Sig: "outcome:" + hVF, Kind: "outcome", Ext: ei, Hook: hVF, Msg: fmt.Sprintf("%s: ValidationFinish received an error the result does not report: %q", tag, m)})
					}
				}
				for _, m := range msgs {
					if !contains(f.Msgs, m) && !mentionsAny(m, fired) {
						add(viol{Sig: "outcome:" + hVF, Kind: "outcome", Ext: ei, Hook: hVF, Msg: fmt.Sprintf("%s: the result reports %q which ValidationFinish did not receive", tag, m)})
					}
				}
			} else if len(f.Msgs) != 0 {
				add(viol{Sig: "outcome:" + hVF, Kind: "outcome", Ext: ei, Hook: hVF, Msg: fmt.Sprintf("%s: ValidationFinish received %d errors for a valid document", tag, len(f.Msgs))})
			}
		}
		for _, f := range v.by[hEF] {
			if f.Res == nil {
				add(viol{Sig: "outcome:" + hEF, Kind: "outcome", Ext: ei, Hook: hEF, Msg: tag + ": ExecutionFinish received a nil *Result"})
				continue
			}
			if f.Res == o.res {
				continue // identity: the very result the caller got
			}
			ok := o.res != nil && f.ResData == jsonOf(o.res.Data)
			for _, m := range f.ResMsgs {
				if !contains(msgs, m) {
					ok = false
				}
			}
			if !ok {
				add(viol{Sig: "outcome:" + hEF, Kind: "outcome", Ext: ei, Hook: hEF, Msg: fmt.Sprintf("%s: ExecutionFinish received a result (data %s, errors %q) that is neither the returned one nor equal to it", tag, f.ResData, f.ResMsgs)})
			}
		}

		// (G) phases an extension must have seen (requests the library had no licence to abandon)
		if !cancelled && spec.Entry != enPlanZero {
			need := func(h string) {
				if len(v.by[h]) == 0 {
					add(viol{Sig: "phase-missing:" + h, Kind: "missing", Ext: ei, Hook: h, Msg: fmt.Sprintf("%s: never saw %s (class %s, entry %s)", tag, h, class, spec.Entry)})
				}
			}
			if do {
				if minAbort > abortStage(hInit) {
					need(hInit)
				}
				if minAbort > abortStage(hPS) {
					need(hPS)
				}
				if reach(class) >= 2 && minAbort > abortStage(hVS) {
					need(hVS)
				}
			}
			if reach(class) >= 4 && minAbort > abortStage(hES) {
				need(hES)
				if !aborted {
					need(hHR)
				}
			}
			// result collection belongs after the execution phase
			if ef := v.by[hEF]; len(ef) > 0 {
				for _, h := range []string{hHR, hGR} {
					for _, c := range v.by[h] {
						if c.Enter < ef[0].End || ef[0].End == 0 {
							add(viol{Sig: "order", Kind: "order", Ext: ei, Hook: h, Msg: fmt.Sprintf("%s: %s before the execution phase was finished", tag, h)})
						}
					}
				}
			}
		}
	}

	// (H) executed fields: what ran is what the document selects (only when nothing licensed an abort)
	if !cancelled && !aborted && resolves(class) {
		got := make([]string, len(R))
		for i, r := range R {
			got[i] = r.Path
		}
		sort.Strings(got)
		want := append([]string(nil), spec.Doc.Paths...)
		sort.Strings(want)
		if spec.Doc.RootNull {
			// a field error that nulls the whole response may cancel whatever has
			// not run yet (deferred sub-selections): only "nothing else ran" is demanded
			if !subMultiset(got, want) {
				vs = append(vs, viol{Sig: "resolve-count:executed-fields", Kind: "executed", Ext: -1, Msg: fmt.Sprintf("resolver invocations %v are not among the fields the document selects %v", got, want)})
			}
		} else if strings.Join(got, ",") != strings.Join(want, ",") {
			vs = append(vs, viol{Sig: "resolve-count:executed-fields", Kind: "executed", Ext: -1, Msg: fmt.Sprintf("resolver invocations %v differ from the fields the document selects %v", got, want)})
		}
	}
	if !cancelled && !resolves(class) && len(R) != 0 {
		vs = append(vs, viol{Sig: "resolve-count:executed-fields", Kind: "executed", Ext: -1, Msg: fmt.Sprintf("%d resolver invocations in a request of class %s", len(R), class)})
	}

	// (I) every hook that panicked is reported
	for _, f := range fired {
		if cancelled && (f.Hook == hRS || f.Hook == hRF) {
			// the caller already has the context error; what the abandoned
			// execution collects cannot reach it (don't-care class)
			continue
		}
		tag := fmt.Sprintf("ext%d(%s).%s", f.Ext, spec.Exts[f.Ext].Name, f.Hook)
		switch {
		case o.res == nil:
			add(viol{Sig: "no-error-reported", Kind: "noerr", Ext: f.Ext, Hook: f.Hook, Msg: tag + " panicked (" + valNames[f.Val] + ") and the entry point returned a nil result"})
		case len(msgs) == 0:
			add(viol{Sig: "no-error-reported", Kind: "noerr", Ext: f.Ext, Hook: f.Hook, Msg: tag + " panicked (" + valNames[f.Val] + ") and Result.Errors is empty"})
		default:
			found := false
			for _, m := range msgs {
				if strings.Contains(m, f.token()) {
					found = true
				}
			}
			if !found {
				add(viol{Sig: "no-error-reported:unattributed", Kind: "unattributed", Ext: f.Ext, Hook: f.Hook,
					Msg: fmt.Sprintf("%s panicked (%s) but no entry of Result.Errors mentions it (looked for %q in %q)", tag, valNames[f.Val], f.token(), msgs)})
			}
		}
	}

	// (J) Result.Extensions
	if !cancelled && !aborted && reach(class) >= 4 && spec.Entry != enPlanZero && o.res != nil {
		names := map[string]int{}
		for _, e := range spec.Exts {
			names[e.Name]++
		}
		for ei, e := range spec.Exts {
			if names[e.Name] != 1 {
				continue // shared name: which instance wins is not stated anywhere
			}
			v := views[ei]
			faulted := false
			for _, h := range []string{hHR, hGR} {
				for _, c := range v.by[h] {
					if c.Panicked {
						faulted = true
					}
				}
			}
			got, present := o.res.Extensions[e.Name]
			tag := fmt.Sprintf("ext%d(%s)", ei, e.Name)
			switch {
			case present && (!e.HasRes || faulted):
				add(viol{Sig: "extensions-result", Kind: "extres", Ext: ei, Msg: fmt.Sprintf("%s: Result.Extensions carries %v although HasResult is false or result collection panicked", tag, got)})
			case present && got != interface{}(fmt.Sprintf("res-%d", ei)):
				add(viol{Sig: "extensions-result", Kind: "extres", Ext: ei, Msg: fmt.Sprintf("%s: Result.Extensions carries %v, GetResult returned res-%d", tag, got, ei)})
			case !present && e.HasRes && !faulted:
				add(viol{Sig: "extensions-result", Kind: "extres", Ext: ei, Msg: fmt.Sprintf("%s: HasResult is true but Result.Extensions has no entry", tag)})
			}
		}
	}

	// (K) request outcome: hooks that fail inside execution / result collection leave the response as it is
	if !cancelled && !aborted && o.base != nil && o.res != nil {
		if d := jsonOf(o.res.Data); d != o.base.Data {
			add(viol{Sig: "request-outcome", Kind: "outcome-data", Ext: -1, Msg: fmt.Sprintf("data %s differs from the data of the same request without extensions %s", d, o.base.Data)})
		}
		rest := append([]string(nil), msgs...)
		for _, m := range o.base.Msgs {
			found := false
			for i, x := range rest {
				if x == m {
					rest = append(rest[:i], rest[i+1:]...)
					found = true
					break
				}
			}
			if !found {
				add(viol{Sig: "request-outcome", Kind: "outcome-errors", Ext: -1, Msg: fmt.Sprintf("error %q of the request without extensions is missing from %q", m, msgs)})
			}
		}
		for _, m := range rest {
			if !mentionsAny(m, fired) {
				add(viol{Sig: "request-outcome", Kind: "outcome-errors", Ext: -1, Msg: fmt.Sprintf("unexpected extra error %q (not in the request without extensions, mentions no injected panic)", m)})
			}
		}
	}
	return vs
}

// subMultiset: every element of a (sorted) occurs in b (sorted) at least as often.
func subMultiset(a, b []string) bool {
	j := 0
	for _, x := range a {
		for j < len(b) && b[j] < x {
			j++
		}
		if j >= len(b) || b[j] != x {
			return false
		}
		j++
	}
	return true
}

func firedHook(fs []fault, h string) bool {
	for _, f := range fs {
		if f.Hook == h {
			return true
		}
	}
	return false
}

func mentionsAny(m string, fs []fault) bool {
	for _, f := range fs {
		if strings.Contains(m, f.token()) {
			return true
		}
	}
	return false
}

// classify maps violations to the confirmed defect classes of README
// "Defects". The predicates look only at the case (where the fault was
// placed, how many extensions, same name or not, request class) and at which
// phases were started.
func classify(o *observation, vs []viol) []viol {
	spec := o.spec
	fired := firedFaults(o)
	startedBy := func(ext int, hook string, idx int) bool {
		n := 0
		for i := range o.calls {
			c := &o.calls[i]
			if c.Ext == ext && c.Hook == hook {
				if n == idx {
					return !c.Panicked
				}
				n++
			}
		}
		return false
	}
	startOf := map[string]string{hPF: hPS, hVF: hVS, hEF: hES, hRF: hRS}
	// finishes counts the calls of ext's finish hook; for the resolve phase only
	// those belonging to ext's idx-th notification.
	finishes := func(ext int, hook string, idx int) int {
		lo, hi := 0, int(^uint(0)>>1)
		if hook == hRF {
			n := 0
			for i := range o.calls {
				c := &o.calls[i]
				if c.Ext == ext && c.Hook == hRS {
					if n == idx {
						lo = c.Enter
					}
					if n == idx+1 {
						hi = c.Enter
					}
					n++
				}
			}
		}
		k := 0
		for i := range o.calls {
			c := &o.calls[i]
			if c.Ext == ext && c.Hook == hook && c.Enter > lo && c.Enter < hi {
				k++
			}
		}
		return k
	}
	// twinKeepsFinish: a later extension with the same name started the phase
	// too (so its finish function replaced this one in the library's map) and
	// that one was finished exactly once — the signature of the shared-name
	// defect and of nothing else.
	twinKeepsFinish := func(ext int, fin string, idx int) bool {
		last := -1
		for j := ext + 1; j < len(spec.Exts); j++ {
			if spec.Exts[j].Name == spec.Exts[ext].Name && startedBy(j, startOf[fin], idx) {
				last = j
			}
		}
		return last >= 0 && finishes(last, fin, idx) == 1
	}
	out := make([]viol, 0, len(vs))
	for _, v := range vs {
		switch {
		case v.Kind == "balance" && v.N == 0 && v.Hook != hRF:
			st := startOf[v.Hook]
			hit := false
			for _, f := range fired {
				if f.Hook == st && f.Ext != v.Ext {
					hit = true
				}
			}
			if hit && len(spec.Exts) >= 2 {
				v.Sig = "defect:didstart-panic-skips-other-finish:" + phaseOfFinish(v.Hook)
				break
			}
			if twinKeepsFinish(v.Ext, v.Hook, 0) {
				v.Sig = "defect:same-name-finish-lost:" + phaseOfFinish(v.Hook)
			}
		case v.Kind == "balance" && v.N == 0 && v.Hook == hRF:
			if v.Aux {
				v.Sig = "defect:resolver-panic-skips-resolve-finish"
				break
			}
			if twinKeepsFinish(v.Ext, hRF, v.Idx) {
				v.Sig = "defect:same-name-finish-lost:resolve"
			}
		case v.Kind == "unattributed" && spec.Doc.RootNull && (v.Hook == hRS || v.Hook == hRF):
			v.Sig = "defect:hook-error-dropped-by-toplevel-recover"
		}
		out = append(out, v)
	}
	return out
}

// render prints a history for a violation's detail.
func render(calls []call, exts []extSpec) []string {
	out := make([]string, 0, len(calls))
	for _, c := range calls {
		who := "schema"
		if c.Ext >= 0 && c.Ext < len(exts) {
			who = fmt.Sprintf("ext%d(%s)", c.Ext, exts[c.Ext].Name)
		}
		s := fmt.Sprintf("%d..%d %s.%s#%d", c.Enter, c.End, who, c.Hook, c.Nth)
		if c.Path != "" {
			s += " " + c.Path
		}
		if c.Arg != "" {
			s += " (" + c.Arg + ")"
		}
		if c.Hook == hVF {
			s += fmt.Sprintf(" (%d errors)", len(c.Msgs))
		}
		if c.Hook == hPF && c.ErrNil {
			s += " (nil)"
		}
		if c.Panicked {
			s += " PANICKED"
		}
		out = append(out, s)
	}
	return out
}
