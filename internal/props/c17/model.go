package c17

import (
	"context"
	"encoding/json"
	"errors"
	"fmt"
	"sort"
	"strings"

	"github.com/graphql-go/graphql"
)

// Request outcome classes.
const (
	clSyntax     = "syntax-error"
	clValidation = "validation-error"
	clVarErr     = "variable-error"
	clPlanErr    = "operation-selection-error" // validation passes, no operation can be chosen
	clFieldErr   = "field-errors"
	clResPanic   = "resolver-panic"
	clThunkFail  = "thunk-fails-in-non-null"
	clRootNull   = "non-null-violation-at-root"
	clSuccess    = "success"
	clThunk      = "success-thunks"
	clList       = "success-lists"
	clCancel     = "cancelled-context"
)

// reach is the last pipeline rank a class reaches (see rank()).
func reach(class string) int {
	switch class {
	case clSyntax:
		return 1
	case clValidation, clPlanErr:
		return 2
	}
	return 4
}

// resolves tells whether resolvers run for the class.
func resolves(class string) bool {
	return reach(class) == 4 && class != clVarErr
}

// docSpec is one request. Paths is the expected multiset of resolver
// invocation paths, written down from the document by hand / by the atom
// templates below — never taken from the library.
type docSpec struct {
	Class  string
	Text   string
	Vars   map[string]interface{}
	OpName string
	Paths  []string
	// RootNull: a field error propagates to the operation root (data: null),
	// i.e. it leaves the executor through its outermost recover.
	RootNull bool
}

func (d docSpec) key() string {
	vb, _ := json.Marshal(d.Vars) // map keys are sorted by encoding/json
	return d.Class + "|" + d.Text + "|" + string(vb) + "|" + d.OpName
}

// Obj is the object value of the universe: identified by ID.
type Obj struct{ ID int }

// atom is a top-level selection template with the resolver invocations it
// causes. key is the response key (alias or field name).
type atom struct {
	name  string
	field string // text after the optional alias
	paths func(key string) []string
	class string // class it forces (error/thunk/list), "" for plain success
	last  bool   // must be the last selection (aborts its siblings' execution)
	vars  bool   // needs $x
}

func pp(parts ...interface{}) string {
	s := make([]string, len(parts))
	for i, p := range parts {
		s[i] = fmt.Sprint(p)
	}
	return "[" + strings.Join(s, " ") + "]"
}

var atoms = []atom{
	{name: "a", field: "a", paths: func(k string) []string { return []string{pp(k)} }},
	{name: "b", field: "b(x:3)", paths: func(k string) []string { return []string{pp(k)} }},
	{name: "bv", field: "b(x:$x)", vars: true, paths: func(k string) []string { return []string{pp(k)} }},
	{name: "o2", field: "o{id name}", paths: func(k string) []string { return []string{pp(k), pp(k, "id"), pp(k, "name")} }},
	{name: "o3", field: "o{child{child{id}}}", paths: func(k string) []string {
		return []string{pp(k), pp(k, "child"), pp(k, "child", "child"), pp(k, "child", "child", "id")}
	}},
	{name: "os2", field: "os{id name}", class: clList, paths: func(k string) []string {
		out := []string{pp(k)}
		for i := 0; i < 3; i++ {
			out = append(out, pp(k, i, "id"), pp(k, i, "name"))
		}
		return out
	}},
	{name: "os3", field: "os{id child{id name}}", class: clList, paths: func(k string) []string {
		out := []string{pp(k)}
		for i := 0; i < 3; i++ {
			out = append(out, pp(k, i, "id"), pp(k, i, "child"), pp(k, i, "child", "id"), pp(k, i, "child", "name"))
		}
		return out
	}},
	{name: "e", field: "e", class: clFieldErr, paths: func(k string) []string { return []string{pp(k)} }},
	{name: "onn", field: "o{id nn}", class: clFieldErr, paths: func(k string) []string { return []string{pp(k), pp(k, "id"), pp(k, "nn")} }},
	{name: "ose", field: "os{id e}", class: clFieldErr, paths: func(k string) []string {
		out := []string{pp(k)}
		for i := 0; i < 3; i++ {
			out = append(out, pp(k, i, "id"), pp(k, i, "e"))
		}
		return out
	}},
	{name: "th", field: "th", class: clThunk, paths: func(k string) []string { return []string{pp(k)} }},
	{name: "tho", field: "tho{id th}", class: clThunk, paths: func(k string) []string { return []string{pp(k), pp(k, "id"), pp(k, "th")} }},
	{name: "nn", field: "nn", class: clRootNull, last: true, paths: func(k string) []string { return []string{pp(k)} }},
	{name: "thn", field: "thn", class: clThunkFail, last: true, paths: func(k string) []string { return []string{pp(k)} }},
	{name: "p", field: "p", class: clResPanic, paths: func(k string) []string { return []string{pp(k)} }},
}

func atomByName(n string) atom {
	for _, a := range atoms {
		if a.name == n {
			return a
		}
	}
	panic("c17: unknown atom " + n)
}

// classPriority decides the class of a document made of several atoms.
var classPriority = []string{clThunkFail, clRootNull, clResPanic, clFieldErr, clThunk, clList, clSuccess}

// docFromAtoms builds a query from atoms; aliases[i] == "" keeps the field name.
func docFromAtoms(names []string, aliases []string) docSpec {
	var sels []string
	var paths []string
	classes := map[string]bool{}
	needVar := false
	for i, n := range names {
		a := atomByName(n)
		key := a.field
		if j := strings.IndexAny(key, "({"); j >= 0 {
			key = key[:j]
		}
		text := a.field
		if i < len(aliases) && aliases[i] != "" {
			key = aliases[i]
			text = aliases[i] + ": " + a.field
		}
		sels = append(sels, text)
		paths = append(paths, a.paths(key)...)
		if a.class != "" {
			classes[a.class] = true
		}
		if a.vars {
			needVar = true
		}
	}
	class := clSuccess
	for _, c := range classPriority {
		if classes[c] {
			class = c
			break
		}
	}
	d := docSpec{Class: class, Paths: paths, RootNull: classes[clThunkFail] || classes[clRootNull]}
	if needVar {
		d.Text = "query($x:Int){ " + strings.Join(sels, " ") + " }"
		d.Vars = map[string]interface{}{"x": 5}
	} else {
		d.Text = "{ " + strings.Join(sels, " ") + " }"
	}
	sort.Strings(d.Paths)
	return d
}

// fixedDocs is the document list of the quick tier (and the base of thorough).
func fixedDocs() []docSpec {
	ds := []docSpec{
		{Class: clSyntax, Text: "{ a"},
		{Class: clSyntax, Text: "query { a b( }"},
		{Class: clSyntax, Text: "{ a } }"},
		{Class: clValidation, Text: "{ zz }"},
		{Class: clValidation, Text: "{ a { x } }"},
		{Class: clValidation, Text: "{ o }"},
		{Class: clValidation, Text: "query($x:Int){ a }"},
		{Class: clVarErr, Text: "query($x:Int!){ b(x:$x) }"},
		{Class: clVarErr, Text: "query($x:Int){ b(x:$x) }", Vars: map[string]interface{}{"x": "str"}},
		{Class: clPlanErr, Text: "query X{a} query Y{a}"},
		{Class: clPlanErr, Text: "query X{a}", OpName: "Z"},
		docFromAtoms([]string{"a", "e"}, nil),
		docFromAtoms([]string{"onn", "a"}, nil),
		docFromAtoms([]string{"a", "nn"}, nil),
		docFromAtoms([]string{"ose"}, nil),
		docFromAtoms([]string{"a", "p"}, nil),
		docFromAtoms([]string{"a", "thn"}, nil),
		docFromAtoms([]string{"a"}, nil),
		docFromAtoms([]string{"a", "b", "o2"}, []string{"", "k", ""}),
		docFromAtoms([]string{"o3"}, nil),
		docFromAtoms([]string{"bv"}, nil),
		{Class: clSuccess, Text: "mutation { m1 m2 }", Paths: []string{pp("m1"), pp("m2")}},
		{Class: clSuccess, Text: "query X{a} query Y{b}", OpName: "Y", Paths: []string{pp("b")}},
		docFromAtoms([]string{"th", "a"}, nil),
		docFromAtoms([]string{"tho", "a"}, nil),
		docFromAtoms([]string{"os2"}, nil),
		docFromAtoms([]string{"os3"}, nil),
	}
	return ds
}

// cancelDoc: the resolver of c cancels the request's context and then waits
// until the harness has seen Do return; z's deferred value signals that the
// abandoned execution goroutine has come to its end.
func cancelDoc() docSpec {
	d := docSpec{Class: clCancel, Text: "{ c a z }", Paths: []string{pp("c"), pp("a"), pp("z")}}
	sort.Strings(d.Paths)
	return d
}

// caseSpec is one case: request, entry point, extensions, faults.
type caseSpec struct {
	Doc    docSpec
	Entry  string
	Exts   []extSpec
	Faults []fault
}

const (
	enDoConfig = "Do/SchemaConfig.Extensions"
	enDoAdd    = "Do/AddExtensions"
	enExecute  = "Execute"
	enPlan     = "PlanQuery+ExecutePlan"
	enPlanZero = "PlanQuery+ExecutePlan(zero Params.Schema)"
	// the plan is prepared while the schema has no extension; the extensions are
	// registered afterwards (AddExtensions) and the retained plan is executed
	enPlanThenAdd = "PlanQuery, AddExtensions, ExecutePlan"
)

func isDo(entry string) bool { return entry == enDoConfig || entry == enDoAdd }

// String is the canonical description of the case (hashed for distinctness).
func (s caseSpec) String() string {
	var b strings.Builder
	b.WriteString(s.Entry + " :: " + s.Doc.key() + " :: exts=")
	for i, e := range s.Exts {
		if i > 0 {
			b.WriteString(",")
		}
		fmt.Fprintf(&b, "%s(%v)", e.Name, e.HasRes)
	}
	b.WriteString(" :: faults=")
	for i, f := range s.Faults {
		if i > 0 {
			b.WriteString(",")
		}
		b.WriteString(f.String())
	}
	return b.String()
}

func (s caseSpec) sameName() bool {
	seen := map[string]bool{}
	for _, e := range s.Exts {
		if seen[e.Name] {
			return true
		}
		seen[e.Name] = true
	}
	return false
}

// caseState is the mutable state of one case; resolvers and extensions reach
// it through closures, so an execution goroutine the library abandoned
// (cancelled context) can never write into a later case's history.
type caseState struct {
	spec   caseSpec
	log    *caseLog
	cancel context.CancelFunc
	gate   chan struct{} // closed by the harness after Do returned (cancel class)
	done   chan struct{} // closed by z's deferred value
}

func (st *caseState) resolver(f func(p graphql.ResolveParams) (interface{}, error)) graphql.FieldResolveFn {
	return func(p graphql.ResolveParams) (interface{}, error) {
		c := st.log.enter(&call{Ext: -1, Hook: hRes, Path: pathString(p.Info.Path)})
		v, err := f(p)
		c.Arg = digest(v, err)
		st.log.end(c, false)
		return v, err
	}
}

func (st *caseState) thunk(path string, f func() (interface{}, error)) func() (interface{}, error) {
	return func() (interface{}, error) {
		c := st.log.enter(&call{Ext: -1, Hook: hThunk, Path: path})
		v, err := f()
		st.log.end(c, false)
		return v, err
	}
}

// buildSchema builds the instrumented schema of the case.
func buildSchema(st *caseState, exts []graphql.Extension, viaAdd bool) (graphql.Schema, error) {
	var objType *graphql.Object
	objType = graphql.NewObject(graphql.ObjectConfig{
		Name: "Obj",
		Fields: graphql.FieldsThunk(func() graphql.Fields {
			return graphql.Fields{
				"id": &graphql.Field{Type: graphql.Int, Resolve: st.resolver(func(p graphql.ResolveParams) (interface{}, error) {
					return p.Source.(Obj).ID, nil
				})},
				"name": &graphql.Field{Type: graphql.String, Resolve: st.resolver(func(p graphql.ResolveParams) (interface{}, error) {
					return fmt.Sprintf("n%d", p.Source.(Obj).ID), nil
				})},
				"nn": &graphql.Field{Type: graphql.NewNonNull(graphql.String), Resolve: st.resolver(func(p graphql.ResolveParams) (interface{}, error) {
					return nil, nil
				})},
				"e": &graphql.Field{Type: graphql.String, Resolve: st.resolver(func(p graphql.ResolveParams) (interface{}, error) {
					return nil, fmt.Errorf("resolver-error-e%d", p.Source.(Obj).ID)
				})},
				"th": &graphql.Field{Type: graphql.String, Resolve: st.resolver(func(p graphql.ResolveParams) (interface{}, error) {
					id := p.Source.(Obj).ID
					return st.thunk(pathString(p.Info.Path), func() (interface{}, error) { return fmt.Sprintf("T%d", id), nil }), nil
				})},
				"child": &graphql.Field{Type: objType, Resolve: st.resolver(func(p graphql.ResolveParams) (interface{}, error) {
					return Obj{ID: p.Source.(Obj).ID*10 + 1}, nil
				})},
			}
		}),
	})
	query := graphql.NewObject(graphql.ObjectConfig{
		Name: "Query",
		Fields: graphql.Fields{
			"a": &graphql.Field{Type: graphql.String, Resolve: st.resolver(func(p graphql.ResolveParams) (interface{}, error) { return "A", nil })},
			"b": &graphql.Field{Type: graphql.Int, Args: graphql.FieldConfigArgument{"x": &graphql.ArgumentConfig{Type: graphql.Int}},
				Resolve: st.resolver(func(p graphql.ResolveParams) (interface{}, error) {
					if x, ok := p.Args["x"].(int); ok {
						return x, nil
					}
					return 7, nil
				})},
			"e":  &graphql.Field{Type: graphql.String, Resolve: st.resolver(func(p graphql.ResolveParams) (interface{}, error) { return nil, errors.New("resolver-error-e") })},
			"nn": &graphql.Field{Type: graphql.NewNonNull(graphql.String), Resolve: st.resolver(func(p graphql.ResolveParams) (interface{}, error) { return nil, nil })},
			"o":  &graphql.Field{Type: objType, Resolve: st.resolver(func(p graphql.ResolveParams) (interface{}, error) { return Obj{ID: 1}, nil })},
			"os": &graphql.Field{Type: graphql.NewList(objType), Resolve: st.resolver(func(p graphql.ResolveParams) (interface{}, error) {
				return []Obj{{ID: 1}, {ID: 2}, {ID: 3}}, nil
			})},
			"th": &graphql.Field{Type: graphql.String, Resolve: st.resolver(func(p graphql.ResolveParams) (interface{}, error) {
				return st.thunk(pathString(p.Info.Path), func() (interface{}, error) { return "TH", nil }), nil
			})},
			"tho": &graphql.Field{Type: objType, Resolve: st.resolver(func(p graphql.ResolveParams) (interface{}, error) {
				return st.thunk(pathString(p.Info.Path), func() (interface{}, error) { return Obj{ID: 4}, nil }), nil
			})},
			"thn": &graphql.Field{Type: graphql.NewNonNull(graphql.String), Resolve: st.resolver(func(p graphql.ResolveParams) (interface{}, error) {
				return st.thunk(pathString(p.Info.Path), func() (interface{}, error) { return nil, errors.New("thunk-error-thn") }), nil
			})},
			// p panics by design: the resolver log entry is closed here, not by st.resolver.
			"p": &graphql.Field{Type: graphql.String, Resolve: func(p graphql.ResolveParams) (interface{}, error) {
				c := st.log.enter(&call{Ext: -1, Hook: hRes, Path: pathString(p.Info.Path), Arg: "<panic>"})
				st.log.end(c, true)
				panic("resolver-panic-p")
			}},
			"c": &graphql.Field{Type: graphql.String, Resolve: st.resolver(func(p graphql.ResolveParams) (interface{}, error) {
				if st.cancel != nil {
					st.cancel()
				}
				if st.gate != nil {
					<-st.gate
				}
				return "C", nil
			})},
			"z": &graphql.Field{Type: graphql.String, Resolve: st.resolver(func(p graphql.ResolveParams) (interface{}, error) {
				return st.thunk(pathString(p.Info.Path), func() (interface{}, error) {
					if st.done != nil {
						close(st.done)
					}
					return "Z", nil
				}), nil
			})},
		},
	})
	mutation := graphql.NewObject(graphql.ObjectConfig{
		Name: "Mutation",
		Fields: graphql.Fields{
			"m1": &graphql.Field{Type: graphql.Int, Resolve: st.resolver(func(p graphql.ResolveParams) (interface{}, error) { return 1, nil })},
			"m2": &graphql.Field{Type: graphql.Int, Resolve: st.resolver(func(p graphql.ResolveParams) (interface{}, error) { return 2, nil })},
		},
	})
	cfg := graphql.SchemaConfig{Query: query, Mutation: mutation}
	if !viaAdd {
		cfg.Extensions = exts
	}
	s, err := graphql.NewSchema(cfg)
	if err != nil {
		return s, err
	}
	if viaAdd {
		s.AddExtensions(exts...)
	}
	return s, nil
}

func jsonOf(v interface{}) string {
	b, err := json.Marshal(v)
	if err != nil {
		return "<unmarshalable: " + err.Error() + ">"
	}
	return string(b)
}

func messages(r *graphql.Result) []string {
	if r == nil {
		return nil
	}
	out := make([]string, len(r.Errors))
	for i, e := range r.Errors {
		out[i] = e.Message
	}
	return out
}
