package c17

import (
	"context"
	"errors"
	"fmt"
	"reflect"
	"strings"
	"sync"

	"github.com/graphql-go/graphql"
	"github.com/graphql-go/graphql/gqlerrors"
)

// Hook names as they appear in the event log, in case descriptions and in
// signatures.
const (
	hInit  = "Init"
	hName  = "Name"
	hPS    = "ParseDidStart"
	hPF    = "ParseFinish"
	hVS    = "ValidationDidStart"
	hVF    = "ValidationFinish"
	hES    = "ExecutionDidStart"
	hEF    = "ExecutionFinish"
	hRS    = "ResolveFieldDidStart"
	hRF    = "ResolveFieldFinish"
	hHR    = "HasResult"
	hGR    = "GetResult"
	hRes   = "resolver" // resolver invocation of the instrumented schema (Ext == -1)
	hThunk = "thunk"    // deferred value forced by the library (Ext == -1)
)

// allHooks is the fault-placement universe (Name is handled separately, see
// README "Name()").
var allHooks = []string{hInit, hPS, hPF, hVS, hVF, hES, hEF, hRS, hRF, hHR, hGR}

// rank is the pipeline position of a hook: init, parse, validation,
// execution (with its resolve notifications), result collection.
func rank(h string) int {
	switch h {
	case hInit:
		return 0
	case hPS, hPF:
		return 1
	case hVS, hVF:
		return 2
	case hES, hEF, hRS, hRF:
		return 3
	case hHR, hGR:
		return 4
	}
	return -1
}

// stage orders the hooks after which the library is allowed to give up the
// request when they fail (README "don't-care: request aborted").
func abortStage(h string) int {
	switch h {
	case hInit:
		return 0
	case hPS:
		return 1
	case hPF:
		return 2
	case hVS:
		return 3
	case hVF:
		return 4
	case hES:
		return 5
	}
	return 99 // not an aborting hook
}

// call is one observed invocation: of an extension hook (Ext >= 0) or of a
// resolver / thunk of the instrumented schema (Ext == -1). Enter and End are
// global sequence numbers taken under the log's mutex.
type call struct {
	Ext      int
	Hook     string
	Nth      int // 1-based invocation number of (Ext, Hook)
	Enter    int
	End      int  // 0 while running
	Panicked bool // ended by panicking (injected fault, or resolver that panics by design)
	Path     string
	Arg      string // digest of the arguments / of what a resolver returned
	ErrNil   bool   // ParseFinish: err == nil
	Msgs     []string
	Res      *graphql.Result
	ResData  string   // ExecutionFinish: JSON of result.Data at call time
	ResMsgs  []string // ExecutionFinish: error messages at call time
	Ret      bool     // HasResult: value returned
}

// caseLog is the history of one case: mutex-protected, one global sequence.
type caseLog struct {
	mu    sync.Mutex
	seq   int
	calls []*call
	count map[string]int // "<ext>/<hook>" -> invocations so far
}

func newLog() *caseLog { return &caseLog{count: map[string]int{}} }

func (l *caseLog) enter(c *call) *call {
	l.mu.Lock()
	l.seq++
	c.Enter = l.seq
	k := fmt.Sprintf("%d/%s", c.Ext, c.Hook)
	l.count[k]++
	c.Nth = l.count[k]
	l.calls = append(l.calls, c)
	l.mu.Unlock()
	return c
}

func (l *caseLog) end(c *call, panicked bool) {
	l.mu.Lock()
	l.seq++
	c.End = l.seq
	c.Panicked = panicked
	l.mu.Unlock()
}

func (l *caseLog) mark(name string) {
	c := l.enter(&call{Ext: -1, Hook: name})
	l.end(c, false)
}

// snapshot copies the calls (the library may still be running in the
// cancelled-context class).
func (l *caseLog) snapshot() []call {
	l.mu.Lock()
	defer l.mu.Unlock()
	out := make([]call, len(l.calls))
	for i, c := range l.calls {
		out[i] = *c
	}
	return out
}

// ---------------------------------------------------------------------------
// Panic values

const (
	vError = iota
	vString
	vInt
	vStruct
	vNilErr  // var e error; panic(e)
	vRuntime // nil map write
	nVals
)

var valNames = []string{"error", "string", "int", "struct", "nil-error-interface", "runtime-error"}

type boomStruct struct {
	What string
	N    int
}

// fault is one injected hook failure.
type fault struct {
	Ext  int    // extension instance index
	Hook string // which hook panics
	Nth  int    // 0: every invocation; k>0: only the k-th invocation of that hook
	Val  int    // panic value kind
}

func (f fault) String() string {
	n := "all"
	if f.Nth > 0 {
		n = fmt.Sprintf("#%d", f.Nth)
	}
	return fmt.Sprintf("ext%d.%s[%s]=%s", f.Ext, f.Hook, n, valNames[f.Val])
}

func hookIndex(h string) int {
	for i, x := range allHooks {
		if x == h {
			return i
		}
	}
	return 50
}

// token is a substring that any rendering of the fault's panic value
// contains; the oracle looks for it in Result.Errors.
func (f fault) token() string {
	switch f.Val {
	case vInt:
		return fmt.Sprint(f.intVal())
	case vNilErr:
		return "nil"
	case vRuntime:
		return "nil map"
	}
	return fmt.Sprintf("boom-%d-%s", f.Ext, f.Hook)
}

func (f fault) intVal() int { return 7100000 + f.Ext*1000 + hookIndex(f.Hook) }

// fire panics with the fault's value. It never returns.
func (f fault) fire() {
	switch f.Val {
	case vError:
		panic(errors.New(f.token()))
	case vString:
		panic(f.token())
	case vInt:
		panic(f.intVal())
	case vStruct:
		panic(boomStruct{What: f.token(), N: 7})
	case vNilErr:
		var e error
		panic(e)
	default:
		var m map[string]int
		m["x"] = 1 // runtime error: assignment to entry in nil map
		panic("unreachable")
	}
}

// ---------------------------------------------------------------------------
// Instrumented extension

type extSpec struct {
	Name   string
	HasRes bool
}

type iext struct {
	idx  int
	spec extSpec
	st   *caseState
}

func (e *iext) value() string { return fmt.Sprintf("res-%d", e.idx) }

// begin logs the invocation and reports whether an injected fault applies.
func (e *iext) begin(c *call) (*call, *fault) {
	c.Ext = e.idx
	e.st.log.enter(c)
	for i := range e.st.spec.Faults {
		f := &e.st.spec.Faults[i]
		if f.Ext == e.idx && f.Hook == c.Hook && (f.Nth == 0 || f.Nth == c.Nth) {
			return c, f
		}
	}
	return c, nil
}

// run is the common body of every hook: log, maybe panic, log the return.
func (e *iext) run(c *call) {
	c, f := e.begin(c)
	if f != nil {
		e.st.log.end(c, true)
		f.fire()
	}
	e.st.log.end(c, false)
}

func (e *iext) Init(ctx context.Context, p *graphql.Params) context.Context {
	e.run(&call{Hook: hInit})
	return ctx
}

func (e *iext) Name() string {
	// Name() is outside the property's fault list; it is only logged as a
	// counter (it is called from inside the library's recover handlers).
	l := e.st.log
	l.mu.Lock()
	k := fmt.Sprintf("%d/%s", e.idx, hName)
	l.count[k]++
	n := l.count[k]
	l.mu.Unlock()
	for i := range e.st.spec.Faults {
		f := &e.st.spec.Faults[i]
		if f.Ext == e.idx && f.Hook == hName && (f.Nth == 0 || f.Nth == n) {
			f.fire()
		}
	}
	return e.spec.Name
}

func (e *iext) ParseDidStart(ctx context.Context) (context.Context, graphql.ParseFinishFunc) {
	e.run(&call{Hook: hPS})
	return ctx, func(err error) {
		c := &call{Hook: hPF, ErrNil: err == nil}
		if err != nil {
			c.Arg = err.Error()
		}
		e.run(c)
	}
}

func (e *iext) ValidationDidStart(ctx context.Context) (context.Context, graphql.ValidationFinishFunc) {
	e.run(&call{Hook: hVS})
	return ctx, func(errs []gqlerrors.FormattedError) {
		c := &call{Hook: hVF}
		for _, x := range errs {
			c.Msgs = append(c.Msgs, x.Message)
		}
		e.run(c)
	}
}

func (e *iext) ExecutionDidStart(ctx context.Context) (context.Context, graphql.ExecutionFinishFunc) {
	e.run(&call{Hook: hES})
	return ctx, func(r *graphql.Result) {
		c := &call{Hook: hEF, Res: r}
		if r != nil {
			c.ResData = jsonOf(r.Data)
			c.ResMsgs = messages(r)
		}
		e.run(c)
	}
}

func (e *iext) ResolveFieldDidStart(ctx context.Context, i *graphql.ResolveInfo) (context.Context, graphql.ResolveFieldFinishFunc) {
	p := "<nil info>"
	if i != nil {
		p = pathString(i.Path)
	}
	e.run(&call{Hook: hRS, Path: p})
	return ctx, func(v interface{}, err error) {
		e.run(&call{Hook: hRF, Path: p, Arg: digest(v, err)})
	}
}

func (e *iext) HasResult() bool {
	e.run(&call{Hook: hHR, Ret: e.spec.HasRes})
	return e.spec.HasRes
}

func (e *iext) GetResult(ctx context.Context) interface{} {
	e.run(&call{Hook: hGR})
	return e.value()
}

// ---------------------------------------------------------------------------

func pathString(p *graphql.ResponsePath) string {
	arr := p.AsArray()
	parts := make([]string, len(arr))
	for i, x := range arr {
		parts[i] = fmt.Sprint(x)
	}
	return "[" + strings.Join(parts, " ") + "]"
}

// digest renders what a resolver returned / what a resolve finish function
// received. Deferred values (functions) cannot be compared: only their kind.
func digest(v interface{}, err error) string {
	vs := ""
	rv := reflect.ValueOf(v)
	switch {
	case !rv.IsValid():
		vs = "<nil>"
	case rv.Kind() == reflect.Func:
		vs = "<func>"
	default:
		vs = fmt.Sprintf("%T:%v", v, v)
	}
	if err != nil {
		return vs + " | err=" + err.Error()
	}
	return vs + " | err=<nil>"
}
