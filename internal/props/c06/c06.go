// Package c06: prepared plans and the plan cache are semantically
// transparent (history checker: every served response is compared with a
// from-scratch execution on an identically generated second schema; a
// reference LRU predicts hits and misses; size invariant under the cache's
// own lock).
package c06

import (
	"encoding/json"
	"fmt"
	"sort"
	"strings"
	"time"

	"github.com/graphql-go/graphql"
	"github.com/graphql-go/graphql/gqlerrors"

	"verif/internal/build"
	"verif/internal/core"
	"verif/internal/gen/schemagen"
	"verif/internal/gen/typedoc"
	"verif/internal/harness"
	"verif/internal/model"
	"verif/internal/nast"
	"verif/internal/values"
)

func init() {
	core.Register(&core.Check{
		ID: "C06", Level: "exploration",
		Technique: "history monitor over one PlanCache / prepared plans: per-call differential (response and resolver arguments) against a from-scratch Do on a second, identically generated schema; reference LRU for hit/miss prediction; size invariant sampled under the cache's own lock (verif hook); conservation hits+misses == lookups; AST snapshot around normalisation",
		Rule:      "case = one history of Get/ExecutePlan/Reset/schema-replacement operations over a pool of queries containing near-collision pairs (one literal, one directive, one default, one alias, argument order, operation name, strings mimicking the key encoding, user variables named __pcvN), cache sizes {1,2,3,1024}, Normalize on/off, nil cache, over-size queries; non-trivial: the history contains a hit, an eviction or a schema replacement and >= 2 distinct queries; distinct by hash(pool, options, operation sequence)",
		Assumptions: []string{
			"two schemas built from the same model with the same value-universe seed answer every request identically when executed from scratch (checked: the from-scratch side is itself compared with the reference executor in C01)",
			"strict LRU hit/miss prediction is demanded only for sequential histories with Normalize off (the cache's documented behaviour); with Normalize on only transparency, bound and conservation are demanded",
		},
		Batches:      func(tier string) int { return map[string]int{"quick": 8, "thorough": 16}[tier] },
		Run:          run,
		ChildTimeout: func(tier string) time.Duration { return 25 * time.Minute },
		MinEvals:     func(tier string) int { return 3000 },
	})
}

type query struct {
	text    string
	op      string
	vars    map[string]interface{}
	varsets []map[string]interface{} // alternative assignments: the same text must be served correctly for each
	note    string
	group   string // queries of one group are always drawn into a history together
}

// ---- pool construction

func nm(s string) *nast.Name { return &nast.Name{Value: s} }

// walkFields calls f for every field of every selection set in the document.
func walkFields(d *nast.Document, f func(fl *nast.Field)) {
	var sel func(ss *nast.SelectionSet)
	sel = func(ss *nast.SelectionSet) {
		if ss == nil {
			return
		}
		for _, it := range ss.Items {
			switch v := it.(type) {
			case *nast.Field:
				f(v)
				sel(v.Sel)
			case *nast.InlineFragment:
				sel(v.Sel)
			}
		}
	}
	for _, def := range d.Defs {
		switch v := def.(type) {
		case *nast.Operation:
			sel(v.Sel)
		case *nast.Fragment:
			sel(v.Sel)
		}
	}
}

// variants produces near-collision variants of a generated document.
func variants(r *core.RNG, m *model.Schema, seedLabel uint64, mk func() *typedoc.Doc) []query {
	var out []query
	render := func(d *typedoc.Doc, note string) {
		op := d.Ops[0]
		name := ""
		if op.Name != nil {
			name = op.Name.Value
		}
		out = append(out, query{text: nast.Print(d.AST), op: name, note: note})
	}
	base := mk()
	render(base, "base")
	// the same document behind some ignored text: every position moves, nothing else
	{
		g := fmt.Sprintf("layout-%d", seedLabel)
		out[0].group = g
		pfx := []string{"\n", "   ", "\n\n  ", "# c\n", ",\t,", " \n# x\n "}[r.Intn(6)]
		q := out[0]
		q.text = pfx + q.text
		q.note = "leading-ignored-text"
		out = append(out, q)
	}
	// one literal changed
	{
		d := mk()
		done := false
		walkFields(d.AST, func(fl *nast.Field) {
			for _, a := range fl.Args {
				if done {
					return
				}
				switch v := a.Value.(type) {
				case *nast.IntValue:
					if v.Raw != "5" {
						v.Raw = "5"
					} else {
						v.Raw = "6"
					}
					done = true
				case *nast.StringValue:
					v.Value = v.Value + "~changed"
					done = true
				case *nast.BooleanValue:
					v.Value = !v.Value
					done = true
				}
			}
		})
		if done {
			render(d, "one-literal")
		}
	}
	// one literal directive added
	{
		d := mk()
		n := 0
		walkFields(d.AST, func(fl *nast.Field) { n++ })
		if n > 0 {
			k := r.Intn(n)
			i := 0
			walkFields(d.AST, func(fl *nast.Field) {
				if i == k {
					fl.Directives = append(fl.Directives, &nast.Directive{Name: nm("skip"), Args: []*nast.Argument{{Name: nm("if"), Value: &nast.BooleanValue{Value: true}}}})
				}
				i++
			})
			render(d, "one-directive")
		}
	}
	// literal directive flipped
	{
		d := mk()
		done := false
		walkFields(d.AST, func(fl *nast.Field) {
			for _, dir := range fl.Directives {
				if b, ok := dir.Args[0].Value.(*nast.BooleanValue); ok && !done {
					b.Value = !b.Value
					done = true
				}
			}
		})
		if done {
			render(d, "directive-flipped")
		}
	}
	// one default changed
	{
		d := mk()
		done := false
		for _, vd := range d.Ops[0].Vars {
			if done {
				break
			}
			switch v := vd.Default.(type) {
			case *nast.IntValue:
				v.Raw = "77"
				done = true
			case *nast.StringValue:
				v.Value += "~d"
				done = true
			case *nast.BooleanValue:
				v.Value = !v.Value
				done = true
			case *nast.EnumValue:
				td := m.Type(m.Type(d.Vars[vd.Var.Name.Value].Type.Base()).Name)
				for _, ev := range td.Values {
					if ev.Name != v.Value {
						v.Value = ev.Name
						done = true
						break
					}
				}
			case *nast.FloatValue:
				v.Raw = "9.75"
				done = true
			}
		}
		if done {
			render(d, "one-default")
		}
	}
	// argument order swapped (same meaning)
	{
		d := mk()
		done := false
		walkFields(d.AST, func(fl *nast.Field) {
			if len(fl.Args) >= 2 && !done {
				fl.Args[0], fl.Args[1] = fl.Args[1], fl.Args[0]
				done = true
			}
		})
		if done {
			render(d, "arg-order")
		}
	}
	// operation renamed
	{
		d := mk()
		if d.Ops[0].Name != nil {
			d.Ops[0].Name.Value += "X"
			render(d, "op-renamed")
		}
	}
	// one field aliased differently
	{
		d := mk()
		done := false
		walkFields(d.AST, func(fl *nast.Field) {
			if !done && fl.Name.Value != "__typename" && fl.Alias == nil && len(fl.Args) == 0 {
				fl.Alias = nm("zz_" + fl.Name.Value)
				done = true
			}
		})
		if done {
			render(d, "one-alias")
		}
	}
	return out
}

// mimicry: hand-written queries whose strings or variable names imitate the
// cache's key encoding and synthetic variable names.
func mimicry(m *model.Schema) []query {
	q := m.Type(m.Query)
	var sf, sarg string
	var intf, intarg string
	for _, f := range q.Fields {
		if !m.IsLeaf(f.Type.Base()) {
			continue
		}
		for _, a := range f.Args {
			if a.Type.Kind == "named" && a.Type.Name == "String" && sf == "" {
				sf, sarg = f.Name, a.Name
			}
			if a.Type.Kind == "named" && a.Type.Name == "Int" && intf == "" {
				intf, intarg = f.Name, a.Name
			}
		}
	}
	var out []query
	if sf != "" {
		for i, s := range []string{`a\u0000b`, `:`, `,`, `=`, `$__pcv0`, `__pcv0`, `a", b: "`, `{x:1}`, `[1,2]`} {
			out = append(out, query{text: fmt.Sprintf(`{ %s(%s: "%s") }`, sf, sarg, s), note: fmt.Sprintf("mimic-string-%d", i)})
		}
		out = append(out, query{text: fmt.Sprintf(`query($__pcv0: String) { %s(%s: $__pcv0) k2: %s(%s: "lit") }`, sf, sarg, sf, sarg), vars: map[string]interface{}{"__pcv0": "user-value"}, note: "user-var-named-__pcv0"})
		out = append(out, query{text: fmt.Sprintf(`query($__pcv1: String = "dflt") { k1: %s(%s: "lit") %s(%s: $__pcv1) }`, sf, sarg, sf, sarg), note: "user-var-named-__pcv1"})
		out = append(out, query{text: fmt.Sprintf(`{ x: %s(%s: "same") x: %s(%s: "same") }`, sf, sarg, sf, sarg), note: "repeated-field-same-literal"})
	}
	if intf != "" {
		out = append(out, query{text: fmt.Sprintf(`{ a: %s(%s: 1) b: %s(%s: 2) }`, intf, intarg, intf, intarg), note: "two-ints-12"})
		out = append(out, query{text: fmt.Sprintf(`{ a: %s(%s: 2) b: %s(%s: 1) }`, intf, intarg, intf, intarg), note: "two-ints-21"})
		out = append(out, query{text: fmt.Sprintf(`{ a: %s(%s: 1) }`, intf, intarg), op: "", note: "one-int"})
		out = append(out, query{text: fmt.Sprintf(`{ a: %s }`, intf), note: "no-arg"})
	}
	// literal pairs in ONE operation that a non-injective rendering (Go's %v,
	// joined strings) would identify: both must reach the resolvers unchanged
	for _, f := range q.Fields {
		if !m.IsLeaf(f.Type.Base()) {
			continue
		}
		for _, a := range f.Args {
			t := a.Type
			if t.Kind == "nonnull" {
				t = t.Of
			}
			if t.Kind == "list" && t.Of.Kind == "named" && (t.Of.Name == "String" || t.Of.Name == "ID" || t.Of.Name == "Tag") {
				other := ""
				for _, b := range f.Args {
					if b != a && b.Type.Kind == "nonnull" {
						other = "-" // another required argument: skip this field
					}
				}
				if other != "" {
					continue
				}
				out = append(out, query{text: fmt.Sprintf(`{ k1: %s(%s: ["a b"]) k2: %s(%s: ["a", "b"]) }`, f.Name, a.Name, f.Name, a.Name), note: "collide-list-split"})
				out = append(out, query{text: fmt.Sprintf(`{ k1: %s(%s: ["a", "b c"]) k2: %s(%s: ["a b", "c"]) k3: %s(%s: ["a b c"]) }`, f.Name, a.Name, f.Name, a.Name, f.Name, a.Name), note: "collide-list-split-3"})
				out = append(out, query{text: fmt.Sprintf(`{ k1: %s(%s: ["1"]) k2: %s(%s: "1") }`, f.Name, a.Name, f.Name, a.Name), note: "collide-list-of-one"})
			}
			if t.Kind == "named" && t.Name == "ID" {
				out = append(out, query{text: fmt.Sprintf(`{ k1: %s(%s: 1) k2: %s(%s: "1") }`, f.Name, a.Name, f.Name, a.Name), note: "collide-id-int-string"})
			}
		}
	}
	out = append(out, query{text: `{ __typename`, note: "syntax-error"}, query{text: `{ nope }`, note: "validation-error"},
		query{text: `query A { __typename } query B { __typename }`, op: "", note: "ambiguous"}, query{text: `query A { __typename } query B { b: __typename }`, op: "B", note: "named-B", group: "named-ops"},
		query{text: `query A { __typename } query B { b: __typename }`, op: "A", note: "named-A", group: "named-ops"}, query{text: `query A { __typename }`, op: "Z", note: "unknown-op"})
	return out
}

// ---- reference LRU (Normalize off)

type refLRU struct {
	max   int
	order []string // most recent first
	owner map[string]int
}

func (l *refLRU) get(key string, schemaID int) bool {
	for i, k := range l.order {
		if k == key {
			if l.owner[k] != schemaID {
				l.order = append(l.order[:i], l.order[i+1:]...)
				delete(l.owner, k)
				l.store(key, schemaID)
				return false
			}
			l.order = append(l.order[:i], l.order[i+1:]...)
			l.order = append([]string{k}, l.order...)
			return true
		}
	}
	l.store(key, schemaID)
	return false
}

func (l *refLRU) store(key string, schemaID int) {
	l.order = append([]string{key}, l.order...)
	l.owner[key] = schemaID
	for len(l.order) > l.max {
		last := l.order[len(l.order)-1]
		l.order = l.order[:len(l.order)-1]
		delete(l.owner, last)
	}
}

func (l *refLRU) reset() { l.order = nil; l.owner = map[string]int{} }

// sigNormalizedLocations: known finding (KNOWN_FINDINGS.txt). A normalising
// cache serves the plan and AST of the text that created the entry, so error
// locations are positions in that text.
const sigNormalizedLocations = "finding:normalized-hit-reports-locations-of-the-entry's-first-text"

func withoutLocations(r *graphql.Result) *graphql.Result {
	if r == nil {
		return nil
	}
	cp := *r
	cp.Errors = nil
	for _, e := range r.Errors {
		e.Locations = nil
		cp.Errors = append(cp.Errors, e)
	}
	return &cp
}

func canonResult(r *graphql.Result) string {
	b, err := json.Marshal(r)
	if err != nil {
		return "marshal error: " + err.Error()
	}
	return string(b)
}

func messages(errs []gqlerrors.FormattedError) string {
	var ms []string
	for _, e := range errs {
		ms = append(ms, e.Message)
	}
	return strings.Join(ms, " | ")
}

func argLog(evs []build.Event) string {
	var parts []string
	for _, e := range harness.Resolves(evs) {
		parts = append(parts, e.Path+"="+harness.CanonArgs(e.Args))
	}
	sort.Strings(parts)
	return strings.Join(parts, ";")
}

func mergeArgs(a, b map[string]interface{}) map[string]interface{} {
	out := map[string]interface{}{}
	for k, v := range a {
		out[k] = v
	}
	for k, v := range b {
		out[k] = v
	}
	return out
}

func run(c *core.Child) {
	nSchemas := c.Scale(3, 6)
	nHist := c.Scale(12, 30)
	histLen := c.Scale(50, 150)
	for si := 0; si < nSchemas; si++ {
		sr := c.RNG(1, uint64(si))
		m := schemagen.Gen(sr, schemagen.DefaultOptions(sr))
		if si == 0 {
			m = probeModel() // guaranteed argument shapes for the normalisation probes
		}
		vseed := sr.U64()
		// pool
		var pool []query
		for di := 0; di < c.Scale(6, 12); di++ {
			mk := func() *typedoc.Doc {
				dr := c.RNG(2, uint64(si), uint64(di))
				o := typedoc.DefaultOptions(dr)
				o.Ops = 1
				o.ArgVarPct = 10
				o.Mutation = false
				return typedoc.Gen(dr, m, o)
			}
			vs := variants(c.RNG(3, uint64(si), uint64(di)), m, uint64(di), mk)
			d := mk()
			for i := range vs {
				vs[i].vars = typedoc.Assignment(c.RNG(4, uint64(si), uint64(di)), m, d, d.Ops[0], uint64(di))
				// every assignment of the directive variables (up to 8), other variables re-drawn
				nb := typedoc.BoolVars(d, d.Ops[0])
				for bits := 0; bits < (1<<uint(nb)) && bits < 8; bits++ {
					vs[i].varsets = append(vs[i].varsets, typedoc.Assignment(c.RNG(4, uint64(si), uint64(di), uint64(bits)), m, d, d.Ops[0], uint64(bits)))
				}
			}
			// near-collision variants of one document are always drawn together
			for i := range vs {
				vs[i].group = fmt.Sprintf("variants-%d", di)
			}
			pool = append(pool, vs...)
		}
		// generated documents with several operations, each requested by name
		for di := 0; di < c.Scale(2, 4); di++ {
			dr := c.RNG(6, uint64(si), uint64(di))
			o := typedoc.DefaultOptions(dr)
			o.Ops = 3
			o.ArgVarPct = 10
			o.Mutation = false
			d := typedoc.Gen(dr, m, o)
			text := nast.Print(d.AST)
			for oi, op := range d.Ops {
				if op.Name == nil {
					continue
				}
				q := query{text: text, op: op.Name.Value, note: fmt.Sprintf("multiop-typed-%d-%d", di, oi), group: fmt.Sprintf("multiop-typed-%d", di)}
				q.vars = typedoc.Assignment(c.RNG(7, uint64(si), uint64(di), uint64(oi)), m, d, op, uint64(oi))
				pool = append(pool, q)
			}
		}
		pool = append(pool, mimicry(m)...)
		if si == 0 {
			pool = append(pool, probeQueries()...)
		}
		// (vi) normalisation leaves the caller's document untouched
		if env0, err := build.Build(m, vseed); err == nil {
			for qi, q := range pool {
				if !c.Begin(fmt.Sprintf("s%d/norm%d", si, qi)) {
					continue
				}
				doc, perr := harness.Parse(q.text)
				if perr != nil {
					continue
				}
				before, _ := json.Marshal(doc)
				c.Guard("panic:normalizeDocument", q.text, func() {
					graphql.VerifNormalizeDocument(&env0.Schema, doc, q.op)
				})
				after, _ := json.Marshal(doc)
				c.Eval(1)
				c.Feature("normalize-snapshot")
				if string(before) != string(after) {
					c.Violation("normalize-mutates-document", "normalizeDocument modified the document it was given", map[string]interface{}{"query": q.text, "operation": q.op})
				}
			}
		}
		var groups []string
		seenGroup := map[string]bool{}
		for _, q := range pool {
			if q.group != "" && !seenGroup[q.group] {
				seenGroup[q.group] = true
				groups = append(groups, q.group)
			}
		}
		for hi := 0; hi < nHist; hi++ {
			id := fmt.Sprintf("s%d/h%d", si, hi)
			if !c.Begin(id) {
				continue
			}
			hr := c.RNG(5, uint64(si), uint64(hi))
			// every group of related queries is the core of some history: the
			// groups are handed out round-robin over (child, history index)
			forced := ""
			if len(groups) > 0 {
				forced = groups[(hi+c.Batch*nHist)%len(groups)]
			}
			history(c, hr, m, vseed, pool, histLen, id, forced)
		}
	}
}

func history(c *core.Child, r *core.RNG, m *model.Schema, vseed uint64, pool []query, n int, id string, forced string) {
	// cache side: up to 3 builds of the same model (same shape, different pointers)
	// Each build has its own value universe, so a plan bound to one schema
	// but served for another shows in the response; the from-scratch side is
	// a further build with the same universe as the schema it shadows.
	var envs, scratches []*build.Env
	for i := 0; i < 3; i++ {
		e, err := build.Build(m, vseed+uint64(i))
		if err != nil {
			return
		}
		e.MutateArgs = true
		envs = append(envs, e)
		sc, err := build.Build(m, vseed+uint64(i))
		if err != nil {
			return
		}
		sc.MutateArgs = true
		scratches = append(scratches, sc)
	}
	opts := graphql.PlanCacheOptions{MaxEntries: []int{1, 2, 3, 1024}[r.Intn(4)], Normalize: r.Bool()}
	if r.Chance(15) {
		opts.MaxQueryBytes = 16
	}
	var cache *graphql.PlanCache
	nilCache := r.Chance(8)
	if !nilCache {
		cache = graphql.NewPlanCache(opts)
	}
	maxEntries := opts.MaxEntries
	lru := &refLRU{max: maxEntries, owner: map[string]int{}}
	// a sub-pool so that hits happen
	k := r.Range(2, 12)
	if k > len(pool) {
		k = len(pool)
	}
	perm := r.Perm(len(pool))
	sub := make([]query, 0, k)
	inSub := map[int]bool{}
	if forced != "" {
		for j := range pool {
			if pool[j].group == forced {
				inSub[j] = true
				sub = append(sub, pool[j])
			}
		}
		if k > 4 {
			k = 4 // a few more queries around the forced group: its members are requested often
		}
	}
	for _, i := range perm[:k] {
		if inSub[i] {
			continue
		}
		inSub[i] = true
		sub = append(sub, pool[i])
		if g := pool[i].group; g != "" {
			for j := range pool {
				if pool[j].group == g && !inSub[j] {
					inSub[j] = true
					sub = append(sub, pool[j])
				}
			}
		}
	}
	// half of the histories run with failing / null-returning resolvers (the
	// same pure outcome table on both sides), so that responses carry field
	// errors with paths and locations
	var outcomes *values.Outcomes
	if r.Bool() {
		outcomes = &values.Outcomes{Seed: r.U64(), Density: r.Range(5, 25), Kinds: []values.Kind{values.Error, values.Nil}}
	}
	cur := 0 // current schema index
	lookups := uint64(0)
	sawHit, sawEvict, sawSwap := false, false, false
	var opsDesc []string
	unexplained := 0 // mismatches other than the recorded finding: a history that keeps failing is abandoned
	fail := func(sig, msg string, q *query) {
		if sig != sigNormalizedLocations {
			unexplained++
		}
		d := map[string]interface{}{"options": fmt.Sprintf("%+v nil=%v", opts, nilCache), "history": opsDesc, "schema": m.SDL()}
		if q != nil {
			d["query"] = q.text
			d["operation"] = q.op
			d["variables"] = q.vars
			d["note"] = q.note
		}
		c.Violation(sig, msg, d)
	}
	for step := 0; step < n; step++ {
		if unexplained > 30 {
			return
		}
		switch x := r.Intn(100); {
		case x < 4 && cache != nil:
			opsDesc = append(opsDesc, "Reset")
			cache.Reset()
			lru.reset()
			continue
		case x < 8:
			cur = r.Intn(len(envs))
			sawSwap = true
			opsDesc = append(opsDesc, fmt.Sprintf("schema=%d", cur))
			continue
		}
		q := sub[r.Intn(len(sub))]
		if len(q.varsets) > 0 {
			q.vars = q.varsets[r.Intn(len(q.varsets))]
		}
		env := envs[cur]
		opsDesc = append(opsDesc, fmt.Sprintf("Get(%s)", q.note))
		if len(opsDesc) > 60 {
			opsDesc = opsDesc[len(opsDesc)-60:]
		}
		h0, m0 := cache.HitsMisses()
		var pr graphql.PlanResult
		if c.Guard("panic:PlanCache.Get", q.text, func() { pr = cache.Get(&env.Schema, q.text, q.op) }) {
			return
		}
		h1, m1 := cache.HitsMisses()
		c.Eval(1)
		oversize := opts.MaxQueryBytes > 0 && len(q.text) > opts.MaxQueryBytes
		if cache != nil {
			entries, order := graphql.VerifPlanCacheLen(cache)
			if entries > maxEntries || order > maxEntries || entries != order {
				fail("bound", fmt.Sprintf("cache holds %d map entries / %d list elements, MaxEntries=%d", entries, order, maxEntries), &q)
			}
			if entries == maxEntries {
				sawEvict = true
			}
			dh, dm := h1-h0, m1-m0
			if !oversize && !opts.Normalize {
				lookups++
				wantHit := lru.get(q.op+"\x00"+q.text, cur)
				if wantHit && (dh != 1 || dm != 0) || !wantHit && (dh != 0 || dm != 1) {
					fail("lru", fmt.Sprintf("reference LRU predicts hit=%v, counters moved by hits+%d misses+%d", wantHit, dh, dm), &q)
				}
				if wantHit {
					sawHit = true
				}
			} else if oversize {
				if dh+dm != 0 {
					fail("conservation", "an over-size query moved the hit/miss counters", &q)
				}
			} else {
				// Normalize on: parse errors and normalisation errors return before the lookup
				// (at most two lookups: the normalised key, then — when the rewritten
				// document does not validate — the document's own text)
				if dh+dm > 2 {
					fail("conservation", fmt.Sprintf("one Get moved the counters by %d", dh+dm), &q)
				}
				lookups += dh + dm
				if dh == 1 {
					sawHit = true
				}
			}
			if h1+m1 != lookups {
				fail("conservation", fmt.Sprintf("hits(%d)+misses(%d) != cached-path lookups (%d)", h1, m1, lookups), &q)
			}
		}
		// from-scratch side
		scratch := scratches[cur]
		scratch.SetOutcomes(outcomes)
		scratch.Log.Reset()
		var want *graphql.Result
		if c.Guard("panic:Do", q.text, func() {
			want = graphql.Do(graphql.Params{Schema: scratch.Schema, RequestString: q.text, OperationName: q.op, VariableValues: q.vars})
		}) {
			return
		}
		wantArgs := argLog(scratch.Log.Snapshot())
		if pr.Plan == nil {
			if len(pr.Errors) == 0 {
				fail("get:no-plan-no-error", "Get returned neither a plan nor errors", &q)
				continue
			}
			if want.Data != nil {
				fail("transparency:error-vs-data", fmt.Sprintf("Get reports errors (%s) but from-scratch execution succeeds: %s", messages(pr.Errors), canonResult(want)), &q)
			} else if messages(pr.Errors) != messages(want.Errors) {
				// plan-time errors (operation selection) are worded by PlanQuery and by Execute alike
				fail("transparency:errors-differ", fmt.Sprintf("Get errors [%s] differ from from-scratch errors [%s]", messages(pr.Errors), messages(want.Errors)), &q)
			} else if a, b := canonResult(&graphql.Result{Errors: pr.Errors}), canonResult(&graphql.Result{Errors: want.Errors}); a != b {
				if opts.Normalize {
					fail(sigNormalizedLocations, fmt.Sprintf("Get errors %s, from scratch %s", trunc(a), trunc(b)), &q)
				} else {
					fail("transparency:error-locations", fmt.Sprintf("Get errors %s differ from from-scratch errors %s", trunc(a), trunc(b)), &q)
				}
			}
			continue
		}
		env.SetOutcomes(outcomes)
		env.Log.Reset()
		var got *graphql.Result
		if c.Guard("panic:ExecutePlan", q.text, func() {
			got = graphql.ExecutePlan(pr.Plan, graphql.ExecuteParams{Schema: env.Schema, Args: mergeArgs(q.vars, pr.SynthArgs)})
		}) {
			return
		}
		c.Eval(1)
		gotArgs := argLog(env.Log.Snapshot())
		if a, b := canonResult(got), canonResult(want); a != b {
			sig := "transparency:response"
			if opts.Normalize {
				sig = "transparency:response:normalize"
				if canonResult(withoutLocations(got)) == canonResult(withoutLocations(want)) {
					sig = sigNormalizedLocations
				}
			}
			fail(sig, fmt.Sprintf("served %s, from scratch %s (synthArgs=%s)", trunc(a), trunc(b), harness.CanonArgs(pr.SynthArgs)), &q)
		} else if gotArgs != wantArgs {
			fail("transparency:resolver-args", fmt.Sprintf("resolvers received %s through the cache, %s from scratch", trunc(gotArgs), trunc(wantArgs)), &q)
		}
	}
	if (sawHit || sawEvict || sawSwap) && len(sub) >= 2 {
		var keys []string
		for _, q := range sub {
			keys = append(keys, q.text)
		}
		c.Nontrivial(core.HashString(fmt.Sprintf("%+v|%v|%s", opts, nilCache, strings.Join(keys, "\x00")) + id))
		if sawHit {
			c.Feature("history-with-hit")
		}
		if sawEvict {
			c.Feature("history-at-capacity")
		}
		if sawSwap {
			c.Feature("history-with-schema-replacement")
		}
		if opts.Normalize {
			c.Feature("normalize-on")
		}
		c.Sample("history", map[string]interface{}{"options": fmt.Sprintf("%+v", opts), "queries": len(sub), "last_ops": opsDesc[max(0, len(opsDesc)-8):]})
	}
	// boundary cross-check: cyclic access to MaxEntries+1 distinct queries gives zero hits
	if cache != nil && !opts.Normalize && maxEntries <= 3 && opts.MaxQueryBytes == 0 {
		cache.Reset()
		h0, _ := cache.HitsMisses()
		env := envs[0]
		for round := 0; round < 3; round++ {
			for i := 0; i <= maxEntries; i++ {
				cache.Get(&env.Schema, fmt.Sprintf("{ k%d: __typename }", i), "")
			}
		}
		h1, _ := cache.HitsMisses()
		c.Eval(1)
		if h1 != h0 {
			fail("bound:cyclic", fmt.Sprintf("cyclic access to %d distinct queries with MaxEntries=%d produced %d hits", maxEntries+1, maxEntries, h1-h0), nil)
		}
	}
	_ = values.Value
}

func max(a, b int) int {
	if a > b {
		return a
	}
	return b
}

func trunc(s string) string {
	if len(s) > 700 {
		return s[:700] + "…"
	}
	return s
}

// probeModel has one root field per argument shape the normaliser treats
// differently (scalar, list, ID, enum with non-name internal values, custom
// scalar, input object with defaults, two arguments).
func probeModel() *model.Schema {
	N, L := model.Named, model.ListOf
	str := N("String")
	arg := func(t *model.TypeRef) []*model.InputDef { return []*model.InputDef{{Name: "a", Type: t}} }
	m := &model.Schema{Query: "Q", Types: []*model.TypeDef{
		{Kind: model.Scalar, Name: "Tag"},
		{Kind: model.Enum, Name: "E", Values: []*model.EnumVal{{Name: "RED", Internal: 0}, {Name: "GREEN", Internal: 1}, {Name: "BLUE", Internal: "b l u e"}}},
		{Kind: model.InputObject, Name: "In", InputFields: []*model.InputDef{
			{Name: "s", Type: str}, {Name: "l", Type: L(str)}, {Name: "e", Type: N("E"), HasDefault: true, Default: 1}, {Name: "n", Type: N("Int"), HasDefault: true, Default: 7}, {Name: "t", Type: N("Tag")}}},
		{Kind: model.Object, Name: "O", Fields: []*model.FieldDef{{Name: "x", Type: str, Args: arg(str)}, {Name: "y", Type: str}}},
		{Kind: model.Object, Name: "Q", Fields: []*model.FieldDef{
			{Name: "s", Type: str, Args: arg(str)},
			{Name: "l", Type: str, Args: arg(L(str))},
			{Name: "ll", Type: str, Args: arg(L(L(str)))},
			{Name: "ids", Type: str, Args: arg(L(N("ID")))},
			{Name: "id", Type: str, Args: arg(N("ID"))},
			{Name: "e", Type: str, Args: arg(N("E"))},
			{Name: "es", Type: str, Args: arg(L(N("E")))},
			{Name: "t", Type: str, Args: arg(N("Tag"))},
			{Name: "ts", Type: str, Args: arg(L(N("Tag")))},
			{Name: "o", Type: str, Args: arg(N("In"))},
			{Name: "os", Type: str, Args: arg(L(N("In")))},
			{Name: "f", Type: str, Args: arg(N("Float"))},
			{Name: "two", Type: str, Args: []*model.InputDef{{Name: "a", Type: N("Int")}, {Name: "b", Type: N("Int"), HasDefault: true, Default: 5}}},
			{Name: "obj", Type: N("O")},
		}},
	}}
	m.Reindex()
	return m
}

// probeQueries are hand-written for probeModel.
func probeQueries() []query {
	texts := map[string]string{
		"collide-list-split":     `{ k1: l(a: ["a b"]) k2: l(a: ["a", "b"]) }`,
		"collide-list-split-3":   `{ k1: l(a: ["a", "b c"]) k2: l(a: ["a b", "c"]) k3: l(a: ["a b c"]) }`,
		"collide-nested-lists":   `{ k1: ll(a: [["a"], ["b"]]) k2: ll(a: [["a", "b"]]) k3: ll(a: [["a b"]]) }`,
		"collide-id-int-string":  `{ k1: id(a: 1) k2: id(a: "1") k3: ids(a: [1, "1"]) k4: ids(a: ["1 1"]) }`,
		"collide-object-strings": `{ k1: o(a: {s: "x l:[y]"}) k2: o(a: {s: "x", l: ["y"]}) }`,
		"collide-object-lists":   `{ k1: os(a: [{s: "a"}, {s: "b"}]) k2: os(a: [{s: "a} {s:b"}]) }`,
		"enum-literals":          `{ k1: e(a: RED) k2: e(a: GREEN) k3: e(a: BLUE) k4: es(a: [BLUE, RED]) k5: o(a: {e: BLUE}) k6: o(a: {s: "d"}) }`,
		"custom-scalar-literals": `{ k1: t(a: "x") k2: ts(a: ["x", "tag:x"]) k3: o(a: {t: "x"}) }`,
		"float-int-literals":     `{ k1: f(a: 1) k2: f(a: 1.0) k3: f(a: 1e0) k4: two(a: 1) k5: two(a: 1, b: 1) k6: two(b: 1) }`,
		"same-literal-twice":     `{ k1: s(a: "same") k2: s(a: "same") x: s(a: "same") x: s(a: "same") obj { x(a: "same") } }`,
		"literal-in-fragment":    `{ x: s(a: "v") ...F obj { ...G x(a: "w") } } fragment F on Q { x: s(a: "v") } fragment G on O { x(a: "w") }`,
		"literal-vs-variable":    `query($v: String = "dv") { k1: s(a: $v) k2: s(a: "dv") k3: l(a: [$v, "dv"]) }`,
		"default-changed-1":      `query($v: Int = 1) { two(a: $v) }`,
		"default-changed-2":      `query($v: Int = 2) { two(a: $v) }`,
		"default-object-1":       `query($v: In = {s: "a", n: 1}) { o(a: $v) }`,
		"default-object-2":       `query($v: In = {s: "a", n: 2}) { o(a: $v) }`,
		"directive-literal-1":    `{ s(a: "q") @skip(if: false) obj @include(if: true) { y } }`,
		"directive-literal-2":    `{ s(a: "q") @skip(if: true) obj @include(if: true) { y } }`,
		"directive-literal-3":    `{ s(a: "q") @skip(if: false) obj @include(if: false) { y } }`,
	}
	names := make([]string, 0, len(texts))
	for n := range texts {
		names = append(names, n)
	}
	sort.Strings(names)
	var out []query
	// several operations in one document, requested by name; in the first two
	// the normalised form does not validate (the literal repeated in a
	// fragment), so the cache serves the document under its own text
	multi := []string{
		`query A { x: s(a: "v") ...F } query B { ...F k2: two(a: 2) x: s(a: "v") } fragment F on Q { x: s(a: "v") }`,
		`query A { x: s(a: "v") ...F } query B { k1: s(a: "other") } query C { ...F obj { y } } fragment F on Q { x: s(a: "v") }`,
		`query A { k: s(a: "1") } query B { k: s(a: "2") } query C { k: l(a: ["1"]) }`,
		`query A($v: String = "a") { k: s(a: $v) } query B($v: String = "b") { k: s(a: $v) }`,
	}
	for mi, text := range multi {
		for _, op := range []string{"A", "B", "C"} {
			if strings.Contains(text, "query "+op) {
				out = append(out, query{text: text, op: op, note: fmt.Sprintf("probe-multiop-%d-%s", mi, op), group: fmt.Sprintf("multiop-%d", mi)})
			}
		}
	}
	// a valid document whose normalised form does not validate, and invalid /
	// valid documents of the same shape that differ from it in one literal
	for i, t := range []string{
		`{ x: s(a: "v") ...F } fragment F on Q { x: s(a: "v") }`,
		`{ x: s(a: "OTHER") ...F } fragment F on Q { x: s(a: "v") }`,
		`{ x: s(a: "v") ...F } fragment F on Q { x: s(a: "w") }`,
		`{ x: s(a: "q") ...F } fragment F on Q { x: s(a: "q") }`,
	} {
		out = append(out, query{text: t, note: fmt.Sprintf("probe-literal-in-fragment-twin-%d", i), group: "literal-in-fragment-twins"})
	}
	// operations that differ only in where the list / non-null wrappers of a
	// variable's type sit (all usable in the same argument position): absent,
	// null and null-holding values are coerced differently by each
	for i, t := range []string{"[String]", "[String]!", "[String!]", "[String!]!"} {
		out = append(out, query{text: "query Q($v: " + t + ") { k: l(a: $v) }", op: "Q", note: fmt.Sprintf("probe-variable-type-twin-%d", i), group: "variable-type-twins",
			varsets: []map[string]interface{}{{}, {"v": nil}, {"v": []interface{}{"a", nil}}, {"v": []interface{}{"a"}}, {"v": "single"}}})
	}
	for i, t := range []string{"[[String]]", "[[String]!]", "[[String]]!", "[[String!]]", "[[String!]!]!"} {
		out = append(out, query{text: "query Q($v: " + t + ") { k: ll(a: $v) }", op: "Q", note: fmt.Sprintf("probe-variable-type-twin2-%d", i), group: "variable-type-twins2",
			varsets: []map[string]interface{}{{}, {"v": []interface{}{nil}}, {"v": []interface{}{[]interface{}{"a", nil}}}, {"v": []interface{}{[]interface{}{"a"}}}}})
	}
	// one fragment spread several times, the spreads differing in their directives
	for i, body := range []string{
		"...G ...G", "...G @skip(if: true) ...G", "...G ...G @skip(if: true)", "...G @skip(if: true) ...G @skip(if: true)",
		"...G @include(if: false) ...G @skip(if: true)", "...G @include(if: true) ...G @include(if: false)", "...G @skip(if: false) ...G @skip(if: false)",
	} {
		out = append(out, query{text: "{ obj { " + body + " } } fragment G on O { y }", note: fmt.Sprintf("probe-repeated-spread-%d", i), group: "repeated-spread-directives"})
	}
	for _, n := range names {
		q := query{text: texts[n], note: "probe-" + n}
		if n == "literal-vs-variable" {
			q.varsets = []map[string]interface{}{{}, {"v": "given"}, {"v": "dv"}}
		}
		if strings.HasPrefix(n, "default-") {
			q.varsets = []map[string]interface{}{{}, {"v": nil}}
		}
		// probes that differ in one literal / default / directive belong together
		for _, pre := range []string{"default-changed", "default-object", "directive-literal", "collide-list-split"} {
			if strings.HasPrefix(n, pre) {
				q.group = "probe-" + pre
			}
		}
		out = append(out, q)
	}
	return out
}
