// Package c19: planning and validation work is polynomial in document size
// (growth checker over verifhook step counters on scaled families).
package c19

import (
	"fmt"
	"math"
	"os"
	"strings"
	"sync/atomic"
	"time"

	"github.com/graphql-go/graphql"
	"github.com/graphql-go/graphql/verifhook"

	"verif/internal/core"
	"verif/internal/harness"
	"verif/internal/ref/syntax"
)

func init() {
	core.Register(&core.Check{
		ID: "C19", Level: "exploration",
		Technique: "step-count growth monitor: verifhook counters (field collection, plan construction, overlap comparisons, fragment/variable usage collection, visitor loop, literal evaluation, lexer, parser) read around ValidateDocument / PlanQuery / Do on document families scaled by n; verdicts on step counts and measured token counts only (absolute envelope enforced online by a monitor goroutine, local growth exponent, independence from the number of implementers, runtime sub-plans == runtime types met); wall time is telemetry",
		Rule:      "case = (family, size n[, implementers m]); families: nesting depth through abstract fields x m implementers, fragment chains, fragment fans (every Fi spreads every Fj, j>i), one fragment spread at n sites, n fragments each spread twice per level, n copies of one response key with sub-selections, n x n alias grids, input literals n deep and n wide, plus seeded random compositions of these shapes; non-trivial: n >= 8; distinct by (family, n, m)",
		Assumptions: []string{
			"every loop of the validation / planning pipeline advances at least one counter (sites are listed in /repo/verifhook/sites.go); a counter that stays at zero fails the run as BROKEN, not as a pass",
			"\"polynomial\" is decided as: steps <= C*N^3 (C calibrated 20x above the clean tree) and local exponent <= 3.3 between consecutive sizes; growth beyond the sizes run is not decided",
		},
		Batches:      func(tier string) int { return map[string]int{"quick": 8, "thorough": 16}[tier] },
		Run:          run,
		ChildTimeout: func(tier string) time.Duration { return 20 * time.Minute },
		MinEvals:     func(tier string) int { return 100 },
	})
}

// ---- schemas

type fanSchema struct {
	schema graphql.Schema
	objs   []*graphql.Object
	// resolveTo chooses the runtime type index by nesting level
	resolveTo func(level int) int
	metPairs  map[string]bool
}

func buildFan(m int) *fanSchema {
	fs := &fanSchema{metPairs: map[string]bool{}}
	var node *graphql.Interface
	node = graphql.NewInterface(graphql.InterfaceConfig{
		Name: "Node",
		Fields: (graphql.FieldsThunk)(func() graphql.Fields {
			return graphql.Fields{"id": &graphql.Field{Type: graphql.String}, "next": &graphql.Field{Type: node},
				"nexts": &graphql.Field{Type: graphql.NewList(node)}}
		}),
		ResolveType: func(p graphql.ResolveTypeParams) *graphql.Object {
			lvl, _ := p.Value.(int)
			i := 0
			if fs.resolveTo != nil {
				i = fs.resolveTo(lvl) % len(fs.objs)
			}
			return fs.objs[i]
		},
	})
	next := func(p graphql.ResolveParams) (interface{}, error) {
		lvl, _ := p.Source.(int)
		return lvl + 1, nil
	}
	nexts := func(p graphql.ResolveParams) (interface{}, error) {
		lvl, _ := p.Source.(int)
		return []interface{}{lvl + 1, lvl + 1}, nil
	}
	for i := 0; i < m; i++ {
		fs.objs = append(fs.objs, graphql.NewObject(graphql.ObjectConfig{
			Name:       fmt.Sprintf("T%d", i),
			Interfaces: []*graphql.Interface{node},
			Fields: (graphql.FieldsThunk)(func() graphql.Fields {
				return graphql.Fields{
					"id":    &graphql.Field{Type: graphql.String, Resolve: func(p graphql.ResolveParams) (interface{}, error) { return "id", nil }},
					"next":  &graphql.Field{Type: node, Resolve: next},
					"nexts": &graphql.Field{Type: graphql.NewList(node), Resolve: nexts},
				}
			}),
		}))
	}
	in := graphql.NewInputObject(graphql.InputObjectConfig{Name: "In", Fields: (graphql.InputObjectConfigFieldMapThunk)(nil)})
	_ = in
	var inObj *graphql.InputObject
	inObj = graphql.NewInputObject(graphql.InputObjectConfig{Name: "Deep", Fields: (graphql.InputObjectConfigFieldMapThunk)(func() graphql.InputObjectConfigFieldMap {
		return graphql.InputObjectConfigFieldMap{
			"d": &graphql.InputObjectFieldConfig{Type: inObj},
			"l": &graphql.InputObjectFieldConfig{Type: graphql.NewList(graphql.Int)},
			"i": &graphql.InputObjectFieldConfig{Type: graphql.Int},
		}
	})})
	q := graphql.NewObject(graphql.ObjectConfig{Name: "Query", Fields: graphql.Fields{
		"start": &graphql.Field{Type: node, Resolve: func(p graphql.ResolveParams) (interface{}, error) { return 0, nil }},
		"a":     &graphql.Field{Type: graphql.String, Args: graphql.FieldConfigArgument{"i": &graphql.ArgumentConfig{Type: graphql.Int}}, Resolve: func(p graphql.ResolveParams) (interface{}, error) { return "a", nil }},
		"b":     &graphql.Field{Type: graphql.String, Resolve: func(p graphql.ResolveParams) (interface{}, error) { return "b", nil }},
		"deep":  &graphql.Field{Type: graphql.String, Args: graphql.FieldConfigArgument{"in": &graphql.ArgumentConfig{Type: inObj}}, Resolve: func(p graphql.ResolveParams) (interface{}, error) { return "d", nil }},
	}})
	types := make([]graphql.Type, len(fs.objs))
	for i, o := range fs.objs {
		types[i] = o
	}
	s, err := graphql.NewSchema(graphql.SchemaConfig{Query: q, Types: types})
	if err != nil {
		panic(err)
	}
	fs.schema = s
	return fs
}

// ---- families: text generators

type family struct {
	name string
	gen  func(n int) string
	max  int // largest n in thorough
	exec bool
}

func rep(s string, n int) string { return strings.Repeat(s, n) }

var families = []family{
	{"abstract-depth", func(n int) string {
		return "{ start { id " + rep("next { id ", n) + rep("} ", n) + "} }"
	}, 128, true},
	{"abstract-depth-lists", func(n int) string {
		d := int(math.Log2(float64(n))) + 1
		return "{ start { id " + rep("nexts { id ", d) + rep("} ", d) + "} }"
	}, 128, true},
	{"fragment-chain", func(n int) string {
		var b strings.Builder
		b.WriteString("{ ...F0 }")
		for i := 0; i < n; i++ {
			if i+1 < n {
				fmt.Fprintf(&b, " fragment F%d on Query { a ...F%d }", i, i+1)
			} else {
				fmt.Fprintf(&b, " fragment F%d on Query { a b }", i)
			}
		}
		return b.String()
	}, 128, true},
	{"fragment-fan", func(n int) string {
		var b strings.Builder
		b.WriteString("{ ...F0 }")
		for i := 0; i < n; i++ {
			fmt.Fprintf(&b, " fragment F%d on Query { a", i)
			for j := i + 1; j < n; j++ {
				fmt.Fprintf(&b, " ...F%d", j)
			}
			b.WriteString(" }")
		}
		return b.String()
	}, 64, true},
	{"fragment-fan-nested", func(n int) string {
		// every Fi spreads every later Fj inside a sub-selection as well
		var b strings.Builder
		b.WriteString("{ start { ...F0 } }")
		for i := 0; i < n; i++ {
			fmt.Fprintf(&b, " fragment F%d on Node { id", i)
			for j := i + 1; j < n; j++ {
				fmt.Fprintf(&b, " ...F%d", j)
			}
			if i+1 < n {
				fmt.Fprintf(&b, " next { ...F%d }", i+1)
			}
			b.WriteString(" }")
		}
		return b.String()
	}, 48, true},
	{"fragment-diamonds", func(n int) string {
		// every Fi spreads F(i+1) twice: 2^n paths through n+1 fragments
		var b strings.Builder
		b.WriteString("{ ...F0 }")
		for i := 0; i < n; i++ {
			fmt.Fprintf(&b, " fragment F%d on Query { ...F%d ...F%d }", i, i+1, i+1)
		}
		fmt.Fprintf(&b, " fragment F%d on Query { a b }", n)
		return b.String()
	}, 128, true},
	{"fragment-diamonds-nested", func(n int) string {
		var b strings.Builder
		b.WriteString("{ start { ...F0 } }")
		for i := 0; i < n; i++ {
			fmt.Fprintf(&b, " fragment F%d on Node { next { ...F%d } next { ...F%d } }", i, i+1, i+1)
		}
		fmt.Fprintf(&b, " fragment F%d on Node { id }", n)
		return b.String()
	}, 64, true},
	{"exclusive-fragment-ladder", func(n int) string {
		// two same-key fields under DIFFERENT object types (mutually exclusive
		// parents); one of them spreads a ladder E0 -> E1a,E1b -> E2a,E2b ...:
		// 2n+1 fragments, 2^n spread paths
		var b strings.Builder
		b.WriteString("{ start { ... on T0 { next { id } } ... on T1 { next { ...E0 } } } }")
		b.WriteString(" fragment E0 on Node { id ...E1a ...E1b }")
		for i := 1; i < n; i++ {
			fmt.Fprintf(&b, " fragment E%da on Node { id ...E%da ...E%db }", i, i+1, i+1)
			fmt.Fprintf(&b, " fragment E%db on Node { id ...E%da ...E%db }", i, i+1, i+1)
		}
		fmt.Fprintf(&b, " fragment E%da on Node { id } fragment E%db on Node { id }", n, n)
		return b.String()
	}, 64, true},
	{"fragment-ladder", func(n int) string {
		var b strings.Builder
		b.WriteString("{ start { next { id } next { ...E0 } } }")
		b.WriteString(" fragment E0 on Node { id ...E1a ...E1b }")
		for i := 1; i < n; i++ {
			fmt.Fprintf(&b, " fragment E%da on Node { id ...E%da ...E%db }", i, i+1, i+1)
			fmt.Fprintf(&b, " fragment E%db on Node { id ...E%da ...E%db }", i, i+1, i+1)
		}
		fmt.Fprintf(&b, " fragment E%da on Node { id } fragment E%db on Node { id }", n, n)
		return b.String()
	}, 64, true},
	{"exclusive-fragment-grid", func(n int) string {
		// two same-key fields under DIFFERENT object types, each spreading the
		// head of its own chain F0 -> ... -> Fn / G0 -> ... -> Gn: (n+1)^2
		// fragment pairs, binomial(2n, n) monotone paths through that grid
		return gridDoc("{ start { ... on T0 { next { ...F0 } } ... on T1 { next { ...G0 } } } }", n)
	}, 64, true},
	{"fragment-grid", func(n int) string {
		return gridDoc("{ start { next { ...F0 } next { ...G0 } } }", n)
	}, 64, true},
	{"alternating-exclusivity-ladder", func(n int) string {
		// the pair (P(i+1), Q(i+1)) is reached from (Pi, Qi) alternately under
		// parents that may overlap (T0/T0) and parents that exclude each other (T0/T1)
		var b strings.Builder
		b.WriteString("{ start { ...P0 ...Q0 } }")
		for i := 0; i < n; i++ {
			fmt.Fprintf(&b, " fragment P%d on Node { ... on T0 { next { ...P%d } } }", i, i+1)
			fmt.Fprintf(&b, " fragment Q%d on Node {", i)
			for k := 0; k < 2; k++ {
				fmt.Fprintf(&b, " ... on T0 { next { ...Q%d } } ... on T1 { next { ...Q%d } }", i+1, i+1)
			}
			b.WriteString(" }")
		}
		fmt.Fprintf(&b, " fragment P%d on Node { id } fragment Q%d on Node { id }", n, n)
		return b.String()
	}, 64, true},
	{"repeated-key-fragment-chain", func(n int) string {
		// the same response key twice per level, each occurrence spreading the next fragment
		var b strings.Builder
		b.WriteString("{ start { ...F0 } }")
		for i := 0; i < n; i++ {
			fmt.Fprintf(&b, " fragment F%d on Node { next { ...F%d } next { ...F%d } }", i, i+1, i+1)
		}
		fmt.Fprintf(&b, " fragment F%d on Node { id }", n)
		return b.String()
	}, 64, true},
	{"same-fragment-n-sites", func(n int) string {
		return "{ start { " + rep("...F ", n) + "next { " + rep("...F ", n) + "} } } fragment F on Node { id next { id } }"
	}, 128, true},
	{"fragments-twice-per-level", func(n int) string {
		d := int(math.Log2(float64(n))) + 1
		var b strings.Builder
		b.WriteString("{ start { ")
		for l := 0; l < d; l++ {
			fmt.Fprintf(&b, "...G%d ...G%d next { ", l, l)
		}
		b.WriteString("id ")
		b.WriteString(rep("} ", d))
		b.WriteString("} }")
		for l := 0; l < d; l++ {
			fmt.Fprintf(&b, " fragment G%d on Node { id next { id } }", l)
		}
		return b.String()
	}, 128, true},
	{"repeated-response-key", func(n int) string {
		return "{ start { " + rep("next { id next { id } } ", n) + "} }"
	}, 128, true},
	{"alias-grid", func(n int) string {
		var b strings.Builder
		b.WriteString("{ start { ")
		for i := 0; i < n; i++ {
			fmt.Fprintf(&b, "k%d: next { ", i)
			for j := 0; j < n; j++ {
				fmt.Fprintf(&b, "j%d: id ", j)
			}
			b.WriteString("} ")
		}
		b.WriteString("} }")
		return b.String()
	}, 64, true},
	{"deep-input-literal", func(n int) string {
		return "{ deep(in: " + rep("{d: ", n) + "{i: 1}" + rep("}", n) + ") }"
	}, 128, true},
	{"wide-input-literal", func(n int) string {
		return "{ deep(in: {l: [" + rep("1, ", n) + "1], d: {l: [" + rep("2, ", n) + "2]}}) }"
	}, 128, true},
	{"conflicting-args-wide", func(n int) string {
		// INVALID on purpose: validation must stay polynomial on rejected documents too
		var b strings.Builder
		b.WriteString("{ ")
		for i := 0; i < n; i++ {
			fmt.Fprintf(&b, "a(i: %d) ", i)
		}
		b.WriteString("}")
		return b.String()
	}, 128, false},
	{"cyclic-fragments", func(n int) string {
		// INVALID on purpose (cycle): must terminate within the envelope
		var b strings.Builder
		b.WriteString("{ ...F0 }")
		for i := 0; i < n; i++ {
			fmt.Fprintf(&b, " fragment F%d on Query { a ...F%d ...F%d }", i, (i+1)%n, (i+2)%n)
		}
		return b.String()
	}, 64, false},
}

func gridDoc(head string, n int) string {
	var b strings.Builder
	b.WriteString(head)
	for _, p := range []string{"F", "G"} {
		for i := 0; i < n; i++ {
			fmt.Fprintf(&b, " fragment %s%d on Node { id ...%s%d }", p, i, p, i+1)
		}
		fmt.Fprintf(&b, " fragment %s%d on Node { id }", p, n)
	}
	return b.String()
}

// envelope constant: steps <= envC * (N+8)^3. Calibrated on the clean tree:
// the largest observed steps/(N+8)^3 over all families and sizes is ~0.05
// (small documents dominate); 20x above that.
const envC = 0.25

type sample struct {
	n, tokens int
	steps     [4]uint64 // validate, plan, do, plan cache (both modes)
}

// measured runs f while a monitor goroutine enforces the envelope online.
func measured(c *core.Child, what string, tokens int, detail string, f func()) uint64 {
	return measuredWithin(c, what, tokens, 0, detail, f)
}

// measuredWithin: as measured, with an additional online bound derived from
// the previous (smaller) size of the same family: growing faster than
// (N2/N1)^3.3 is the violation the exponent clause states, so there is no
// point in waiting for an exponential run to finish before reporting it.
func measuredWithin(c *core.Child, what string, tokens int, growthLimit uint64, detail string, f func()) uint64 {
	limit := uint64(envC * math.Pow(float64(tokens+8), 3))
	if growthLimit > 0 && growthLimit < limit {
		limit = growthLimit
	}
	base := verifhook.Total()
	var done atomic.Bool
	stop := make(chan struct{})
	go func() {
		for {
			select {
			case <-stop:
				return
			default:
			}
			if d := verifhook.Total() - base; d > limit && !done.Load() {
				c.Violation("envelope:"+what, fmt.Sprintf("%s exceeded the step envelope while still running: > %d steps for a document of %d tokens", what, limit, tokens), detail)
				c.Inconclusive("child stopped by the online step monitor")
				os.Exit(0)
			}
			time.Sleep(200 * time.Microsecond)
		}
	}()
	f()
	done.Store(true)
	close(stop)
	d := verifhook.Total() - base
	if d > limit {
		c.Violation("envelope:"+what, fmt.Sprintf("%s took %d steps for a document of %d tokens (envelope %d)", what, d, tokens, limit), detail)
	}
	return d
}

func tokensOf(text string) int {
	toks, err := syntax.Tokens([]byte(text))
	if err != nil {
		return len(strings.Fields(text))
	}
	return len(toks)
}

func sizesFor(c *core.Child, f family) []int {
	var out []int
	for n := 2; n <= f.max; n *= 2 {
		if c.Quick() && n > 32 {
			break
		}
		out = append(out, n)
	}
	return out
}

// appendedSchemas: schemas extended after construction (AppendType) must not
// pay per request for the number of object types an abstract type has: the
// possible-type tables are built when the schema changes (or at the latest
// once), never again for every request, and validation / planning counts do
// not depend on the number of implementers.
func appendedSchemas(c *core.Child) {
	text := "{ start { id ... on T0 { id } ... on T1 { a: id } next { ... on T1 { id } ...F } nexts { ... on T0 { id } } } } fragment F on T0 { b: id }"
	var base [2]uint64
	for mi, m := range []int{3, 24, 96} {
		id := fmt.Sprintf("appended-schema/m%d", m)
		if !c.Begin(id) {
			continue
		}
		// the types of a fan schema, but only T0 supplied up front; the others appended one by one
		other := buildFan(m)
		cfg := graphql.SchemaConfig{Query: other.schema.QueryType(), Types: []graphql.Type{other.objs[0]}}
		schema, err := graphql.NewSchema(cfg)
		if err != nil {
			c.Violation("harness:schema-build", err.Error(), nil)
			continue
		}
		for _, o := range other.objs[1:] {
			if err := schema.AppendType(o); err != nil {
				c.Violation("harness:append-type", err.Error(), nil)
			}
		}
		other.resolveTo = func(level int) int { return level % 2 }
		doc, perr := harness.Parse(text)
		if perr != nil {
			c.Violation("harness:family-noparse", perr.Error(), text)
			continue
		}
		// warm-up: whatever is built lazily may be built now
		graphql.Do(graphql.Params{Schema: schema, RequestString: text})
		b0 := verifhook.Snapshot()
		var steps [2]uint64
		for rep := 0; rep < 3; rep++ {
			t0 := verifhook.Total()
			valid := graphql.ValidateDocument(&schema, doc, nil).IsValid
			t1 := verifhook.Total()
			plan, err := graphql.PlanQuery(&schema, doc, "")
			t2 := verifhook.Total()
			if !valid || err != nil {
				c.Violation("harness:family-validity", fmt.Sprintf("appended-schema document: valid=%v plan error=%v", valid, err), text)
				break
			}
			graphql.ExecutePlan(plan, graphql.ExecuteParams{Schema: schema})
			graphql.Do(graphql.Params{Schema: schema, RequestString: text})
			steps = [2]uint64{t1 - t0, t2 - t1}
			c.Eval(4)
		}
		b1 := verifhook.Snapshot()
		c.Feature("appended-schema")
		c.Nontrivial(core.HashString(id))
		if d := b1[verifhook.SchemaPossibleTypeBuild] - b0[verifhook.SchemaPossibleTypeBuild]; d != 0 {
			c.Violation("implementers:possible-type-table-rebuilt-per-request", fmt.Sprintf("a schema extended with AppendType (%d implementers) rebuilt a possible-type table %d times while serving 3 warm requests: the table does not survive the request, so every request pays for the number of object types", m, d), text)
		}
		if mi == 0 {
			base = steps
		} else if steps != base {
			c.Violation("implementers:appended-schema", fmt.Sprintf("validation / planning steps %v with %d implementers, %v with 3", steps, m, base), text)
		}
	}
}

func run(c *core.Child) {
	if c.Batch == 0 {
		appendedSchemas(c)
	}
	for fi, f := range families {
		if fi%c.NBatches != c.Batch {
			continue
		}
		ms := []int{2, 8, 32}
		if !c.Quick() {
			ms = append(ms, 128)
		}
		perM := map[int][]sample{}
		for _, m := range ms {
			if m != 2 && !strings.HasPrefix(f.name, "abstract") && !strings.HasPrefix(f.name, "repeated") && f.name != "fragment-fan-nested" {
				continue // implementer-independence is only interesting where abstract fields occur
			}
			fs := buildFan(m)
			for _, n := range sizesFor(c, f) {
				id := fmt.Sprintf("%s/m%d/n%d", f.name, m, n)
				if !c.Begin(id) {
					continue
				}
				text := f.gen(n)
				N := tokensOf(text)
				detail := fmt.Sprintf("family=%s n=%d implementers=%d tokens=%d text=%s", f.name, n, m, N, trunc(text))
				doc, perr := harness.Parse(text)
				if perr != nil {
					c.Violation("harness:family-noparse", perr.Error(), detail)
					continue
				}
				var s sample
				s.n, s.tokens = n, N
				t0 := time.Now()
				valid := false
				// online growth bound from the previous size (see measuredWithin)
				growth := func(k int) uint64 {
					prev := perM[m]
					if len(prev) < 2 {
						return 0
					}
					p := prev[len(prev)-1]
					if p.tokens >= N {
						return 0
					}
					base := float64(p.steps[k])
					if base < 2000 {
						base = 2000
					}
					return uint64(base * math.Pow(float64(N)/float64(p.tokens), 3.3) * 4)
				}
				s.steps[0] = measuredWithin(c, "ValidateDocument", N, growth(0), detail, func() {
					valid = graphql.ValidateDocument(&fs.schema, doc, nil).IsValid
				})
				c.Eval(1)
				if valid != f.exec {
					c.Violation("harness:family-validity", fmt.Sprintf("family document validity is %v, expected %v", valid, f.exec), detail)
				}
				// the plan cache's own walks (fingerprint, literal normalisation) are
				// part of what it costs to get from a request to a plan
				for _, norm := range []bool{false, true} {
					pc := graphql.NewPlanCache(graphql.PlanCacheOptions{Normalize: norm})
					name := "PlanCache.Get"
					if norm {
						name = "PlanCache.Get(normalize)"
					}
					st := measuredWithin(c, name, N*3, growth(3), detail, func() { pc.Get(&fs.schema, text, "") })
					s.steps[3] += st
					c.Eval(1)
				}
				if f.exec {
					var plan *graphql.Plan
					s.steps[1] = measuredWithin(c, "PlanQuery", N, growth(1), detail, func() {
						plan, _ = graphql.PlanQuery(&fs.schema, doc, "")
					})
					c.Eval(1)
					// execution: runtime types vary by level so that several
					// alternatives of one abstract field are met
					fs.resolveTo = func(level int) int { return level % 3 }
					before := verifhook.Snapshot()
					s.steps[2] = measuredWithin(c, "Do", N*4, growth(2), detail, func() {
						graphql.Do(graphql.Params{Schema: fs.schema, RequestString: text})
					})
					c.Eval(1)
					after := verifhook.Snapshot()
					// "plans only what it meets": with the prepared plan, sub-plans built
					// at execute time == distinct (abstract field, runtime type) pairs met
					if plan != nil && strings.HasPrefix(f.name, "abstract-depth") && f.name == "abstract-depth" {
						b0 := verifhook.Snapshot()
						graphql.ExecutePlan(plan, graphql.ExecuteParams{Schema: fs.schema})
						b1 := verifhook.Snapshot()
						built := b1[verifhook.PlanAbstractAlternativeBuild] - b0[verifhook.PlanAbstractAlternativeBuild]
						// one abstract field per nesting level (start + n x next), each met with exactly one runtime type
						want := uint64(n + 1)
						if built != want {
							c.Violation("lazy-plans", fmt.Sprintf("executing a prepared plan built %d per-runtime-type sub-plans, %d (abstract field, runtime type) pairs were met", built, want), detail)
						}
						// a second execution meets nothing new
						graphql.ExecutePlan(plan, graphql.ExecuteParams{Schema: fs.schema})
						b2 := verifhook.Snapshot()
						if again := b2[verifhook.PlanAbstractAlternativeBuild] - b1[verifhook.PlanAbstractAlternativeBuild]; again != 0 {
							c.Violation("lazy-plans", fmt.Sprintf("a second execution of the same plan built %d more sub-plans", again), detail)
						}
						c.Eval(2)
					}
					_ = before
					_ = after
				}
				c.AddExtra("wall_ms:"+f.name, float64(time.Since(t0).Microseconds())/1000)
				c.MaxExtra("max_steps_per_token3:"+f.name, float64(s.steps[0]+s.steps[1])/math.Pow(float64(N+8), 3))
				perM[m] = append(perM[m], s)
				if n >= 8 {
					c.Nontrivial(core.HashString(id))
				}
				c.Feature("family:" + f.name)
				if s.steps[0] == 0 || (f.exec && s.steps[1] == 0) {
					c.Violation("harness:hook-not-reached", "a step counter stayed at zero: the hooks are not reached", detail)
				}
			}
		}
		// local growth exponents (per m)
		for _, m := range ms {
			ss := perM[m]
			for _, k := range []int{0, 1, 3} { // validate, plan, plan cache
				for i := 2; i < len(ss); i++ {
					a, b := ss[i-1], ss[i]
					if a.steps[k] == 0 || b.steps[k] == 0 || b.tokens <= a.tokens {
						continue
					}
					e := math.Log(float64(b.steps[k])/float64(a.steps[k])) / math.Log(float64(b.tokens)/float64(a.tokens))
					c.MaxExtra(fmt.Sprintf("max_local_exponent:%s:%s", []string{"validate", "plan", "do", "plancache"}[k], f.name), e)
					if e > 3.3 {
						c.Violation("exponent:"+[]string{"ValidateDocument", "PlanQuery", "Do", "PlanCache.Get"}[k], fmt.Sprintf("family %s (m=%d): steps grow from %d to %d while tokens grow from %d to %d (n %d -> %d): local exponent %.2f > 3.3", f.name, m, a.steps[k], b.steps[k], a.tokens, b.tokens, a.n, b.n, e), nil)
					}
				}
			}
		}
		// independence from the number of implementers: plan- and validation-time counts identical for all m
		base := perM[ms[0]]
		for _, m := range ms[1:] {
			ss := perM[m]
			for i := range ss {
				if i >= len(base) {
					break
				}
				for k := 0; k < 2; k++ {
					if ss[i].steps[k] != base[i].steps[k] {
						c.Violation("implementers:"+[]string{"ValidateDocument", "PlanQuery"}[k], fmt.Sprintf("family %s n=%d: %d steps with %d implementers but %d with %d", f.name, ss[i].n, ss[i].steps[k], m, base[i].steps[k], ms[0]), nil)
					}
				}
			}
		}
		if len(base) > 0 {
			last := base[len(base)-1]
			c.Sample(f.name, map[string]interface{}{"family": f.name, "n": last.n, "tokens": last.tokens, "validate_steps": last.steps[0], "plan_steps": last.steps[1], "do_steps": last.steps[2]})
		}
	}
}

func trunc(s string) string {
	if len(s) > 400 {
		return s[:400] + "…"
	}
	return s
}
