// Package nast is the neutral syntax tree shared by the generators, the
// reference parser (ref/syntax) and the reference models. It is independent
// of the library's ast package: nothing here imports graphql-go.
//
// Spans are BYTE offsets into the source text, half open [Start,End).
// For trees built by a generator the spans are filled in by the renderer.
package nast

// Span delimits the source text of a node in bytes.
type Span struct{ Start, End int }

// Node is implemented by every tree node.
type Node interface {
	Kind() string // same spelling as the library's kinds ("Field", "Named", ...)
	Pos() *Span
}

type Document struct {
	Span
	Defs []Node // *Operation, *Fragment, and type-system definitions
}

type Name struct {
	Span
	Value string
}

// ---- executable definitions

type Operation struct {
	Span
	Op         string // "query" | "mutation" | "subscription"
	Shorthand  bool   // anonymous `{ ... }` form without keyword
	Name       *Name  // nil when anonymous
	Vars       []*VarDef
	Directives []*Directive
	Sel        *SelectionSet
}

type VarDef struct {
	Span
	Var     *Variable
	Type    Node // *Named | *List | *NonNull
	Default Node // value or nil
}

type Fragment struct {
	Span
	Name       *Name
	TypeCond   *Named
	Directives []*Directive
	Sel        *SelectionSet
}

type SelectionSet struct {
	Span
	Items []Node // *Field | *FragmentSpread | *InlineFragment
}

type Field struct {
	Span
	Alias      *Name
	Name       *Name
	Args       []*Argument
	Directives []*Directive
	Sel        *SelectionSet
}

type FragmentSpread struct {
	Span
	Name       *Name
	Directives []*Directive
}

type InlineFragment struct {
	Span
	TypeCond   *Named // may be nil
	Directives []*Directive
	Sel        *SelectionSet
}

type Argument struct {
	Span
	Name  *Name
	Value Node
}

type Directive struct {
	Span
	Name *Name
	Args []*Argument
}

// ---- types

type Named struct {
	Span
	Name *Name
}
type List struct {
	Span
	Of Node
}
type NonNull struct {
	Span
	Of Node
}

// ---- values

type Variable struct {
	Span
	Name *Name
}
type IntValue struct {
	Span
	Raw string
}
type FloatValue struct {
	Span
	Raw string
}
type StringValue struct {
	Span
	Value string // decoded
	Block bool   // written as """block string"""
}
type BooleanValue struct {
	Span
	Value bool
}
type EnumValue struct {
	Span
	Value string
}
type ListValue struct {
	Span
	Items []Node
}
type ObjectValue struct {
	Span
	Fields []*ObjectField
}
type ObjectField struct {
	Span
	Name  *Name
	Value Node
}

// ---- type system definitions

type SchemaDef struct {
	Span
	Directives []*Directive
	OpTypes    []*OpTypeDef
}
type OpTypeDef struct {
	Span
	Op   string
	Type *Named
}
type ScalarDef struct {
	Span
	Desc       *StringValue
	Name       *Name
	Directives []*Directive
}
type ObjectDef struct {
	Span
	Desc       *StringValue
	Name       *Name
	Interfaces []*Named
	Directives []*Directive
	Fields     []*FieldDef
}
type FieldDef struct {
	Span
	Desc       *StringValue
	Name       *Name
	Args       []*InputValueDef
	Type       Node
	Directives []*Directive
}
type InputValueDef struct {
	Span
	Desc       *StringValue
	Name       *Name
	Type       Node
	Default    Node
	Directives []*Directive
}
type InterfaceDef struct {
	Span
	Desc       *StringValue
	Name       *Name
	Directives []*Directive
	Fields     []*FieldDef
}
type UnionDef struct {
	Span
	Desc       *StringValue
	Name       *Name
	Directives []*Directive
	Types      []*Named
}
type EnumDef struct {
	Span
	Desc       *StringValue
	Name       *Name
	Directives []*Directive
	Values     []*EnumValueDef
}
type EnumValueDef struct {
	Span
	Desc       *StringValue
	Name       *Name
	Directives []*Directive
}
type InputObjectDef struct {
	Span
	Desc       *StringValue
	Name       *Name
	Directives []*Directive
	Fields     []*InputValueDef
}
type TypeExtension struct {
	Span
	Def *ObjectDef
}
type DirectiveDef struct {
	Span
	Desc      *StringValue
	Name      *Name
	Args      []*InputValueDef
	Locations []*Name
}

func (s *Span) Pos() *Span { return s }

func (*Document) Kind() string       { return "Document" }
func (*Name) Kind() string           { return "Name" }
func (*Operation) Kind() string      { return "OperationDefinition" }
func (*VarDef) Kind() string         { return "VariableDefinition" }
func (*Fragment) Kind() string       { return "FragmentDefinition" }
func (*SelectionSet) Kind() string   { return "SelectionSet" }
func (*Field) Kind() string          { return "Field" }
func (*FragmentSpread) Kind() string { return "FragmentSpread" }
func (*InlineFragment) Kind() string { return "InlineFragment" }
func (*Argument) Kind() string       { return "Argument" }
func (*Directive) Kind() string      { return "Directive" }
func (*Named) Kind() string          { return "Named" }
func (*List) Kind() string           { return "List" }
func (*NonNull) Kind() string        { return "NonNull" }
func (*Variable) Kind() string       { return "Variable" }
func (*IntValue) Kind() string       { return "IntValue" }
func (*FloatValue) Kind() string     { return "FloatValue" }
func (*StringValue) Kind() string    { return "StringValue" }
func (*BooleanValue) Kind() string   { return "BooleanValue" }
func (*EnumValue) Kind() string      { return "EnumValue" }
func (*ListValue) Kind() string      { return "ListValue" }
func (*ObjectValue) Kind() string    { return "ObjectValue" }
func (*ObjectField) Kind() string    { return "ObjectField" }
func (*SchemaDef) Kind() string      { return "SchemaDefinition" }
func (*OpTypeDef) Kind() string      { return "OperationTypeDefinition" }
func (*ScalarDef) Kind() string      { return "ScalarDefinition" }
func (*ObjectDef) Kind() string      { return "ObjectDefinition" }
func (*FieldDef) Kind() string       { return "FieldDefinition" }
func (*InputValueDef) Kind() string  { return "InputValueDefinition" }
func (*InterfaceDef) Kind() string   { return "InterfaceDefinition" }
func (*UnionDef) Kind() string       { return "UnionDefinition" }
func (*EnumDef) Kind() string        { return "EnumDefinition" }
func (*EnumValueDef) Kind() string   { return "EnumValueDefinition" }
func (*InputObjectDef) Kind() string { return "InputObjectDefinition" }
func (*TypeExtension) Kind() string  { return "TypeExtensionDefinition" }
func (*DirectiveDef) Kind() string   { return "DirectiveDefinition" }

// Children returns the child nodes of n in grammar (source) order. Nil
// children are omitted. Descriptions are included (first) for type-system
// nodes; callers that mirror the library visitor (which does not visit
// descriptions) must drop them.
func Children(n Node) []Node {
	var out []Node
	add := func(c Node) {
		if !isNil(c) {
			out = append(out, c)
		}
	}
	dirs := func(ds []*Directive) {
		for _, d := range ds {
			add(d)
		}
	}
	switch v := n.(type) {
	case *Document:
		for _, d := range v.Defs {
			add(d)
		}
	case *Operation:
		add(v.Name)
		for _, x := range v.Vars {
			add(x)
		}
		dirs(v.Directives)
		add(v.Sel)
	case *VarDef:
		add(v.Var)
		add(v.Type)
		add(v.Default)
	case *Fragment:
		add(v.Name)
		add(v.TypeCond)
		dirs(v.Directives)
		add(v.Sel)
	case *SelectionSet:
		for _, x := range v.Items {
			add(x)
		}
	case *Field:
		add(v.Alias)
		add(v.Name)
		for _, x := range v.Args {
			add(x)
		}
		dirs(v.Directives)
		add(v.Sel)
	case *FragmentSpread:
		add(v.Name)
		dirs(v.Directives)
	case *InlineFragment:
		add(v.TypeCond)
		dirs(v.Directives)
		add(v.Sel)
	case *Argument:
		add(v.Name)
		add(v.Value)
	case *Directive:
		add(v.Name)
		for _, x := range v.Args {
			add(x)
		}
	case *Named:
		add(v.Name)
	case *List:
		add(v.Of)
	case *NonNull:
		add(v.Of)
	case *Variable:
		add(v.Name)
	case *ListValue:
		for _, x := range v.Items {
			add(x)
		}
	case *ObjectValue:
		for _, x := range v.Fields {
			add(x)
		}
	case *ObjectField:
		add(v.Name)
		add(v.Value)
	case *SchemaDef:
		dirs(v.Directives)
		for _, x := range v.OpTypes {
			add(x)
		}
	case *OpTypeDef:
		add(v.Type)
	case *ScalarDef:
		add(v.Desc)
		add(v.Name)
		dirs(v.Directives)
	case *ObjectDef:
		add(v.Desc)
		add(v.Name)
		for _, x := range v.Interfaces {
			add(x)
		}
		dirs(v.Directives)
		for _, x := range v.Fields {
			add(x)
		}
	case *FieldDef:
		add(v.Desc)
		add(v.Name)
		for _, x := range v.Args {
			add(x)
		}
		add(v.Type)
		dirs(v.Directives)
	case *InputValueDef:
		add(v.Desc)
		add(v.Name)
		add(v.Type)
		add(v.Default)
		dirs(v.Directives)
	case *InterfaceDef:
		add(v.Desc)
		add(v.Name)
		dirs(v.Directives)
		for _, x := range v.Fields {
			add(x)
		}
	case *UnionDef:
		add(v.Desc)
		add(v.Name)
		dirs(v.Directives)
		for _, x := range v.Types {
			add(x)
		}
	case *EnumDef:
		add(v.Desc)
		add(v.Name)
		dirs(v.Directives)
		for _, x := range v.Values {
			add(x)
		}
	case *EnumValueDef:
		add(v.Desc)
		add(v.Name)
		dirs(v.Directives)
	case *InputObjectDef:
		add(v.Desc)
		add(v.Name)
		dirs(v.Directives)
		for _, x := range v.Fields {
			add(x)
		}
	case *TypeExtension:
		add(v.Def)
	case *DirectiveDef:
		add(v.Desc)
		add(v.Name)
		for _, x := range v.Args {
			add(x)
		}
		for _, x := range v.Locations {
			add(x)
		}
	}
	return out
}

func isNil(n Node) bool {
	if n == nil {
		return true
	}
	switch v := n.(type) {
	case *Name:
		return v == nil
	case *SelectionSet:
		return v == nil
	case *Named:
		return v == nil
	case *StringValue:
		return v == nil
	case *Variable:
		return v == nil
	case *ObjectDef:
		return v == nil
	case *Directive:
		return v == nil
	case *Argument:
		return v == nil
	}
	return false
}
