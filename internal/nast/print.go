package nast

import (
	"fmt"
	"strings"
)

// Print renders a document compactly (single spaces, LF between definitions)
// and fills in every node's byte span. It is the plain renderer used by the
// typed generators; gramdoc.Render offers layouts.
func Print(d *Document) string {
	p := &printer{}
	p.doc(d)
	return p.b.String()
}

// PrintValue renders a value compactly (spans relative to the returned text).
func PrintValue(v Node) string {
	p := &printer{}
	p.value(v)
	return p.b.String()
}

// PrintType renders a type reference.
func PrintType(t Node) string {
	p := &printer{}
	p.typ(t)
	return p.b.String()
}

type printer struct{ b strings.Builder }

func (p *printer) pos() int   { return p.b.Len() }
func (p *printer) w(s string) { p.b.WriteString(s) }
func (p *printer) sp()        { p.b.WriteByte(' ') }
func (p *printer) name(n *Name) {
	n.Start = p.pos()
	p.w(n.Value)
	n.End = p.pos()
}

func (p *printer) doc(d *Document) {
	d.Start = p.pos()
	for i, def := range d.Defs {
		if i > 0 {
			p.w("\n")
		}
		switch v := def.(type) {
		case *Operation:
			p.op(v)
		case *Fragment:
			p.frag(v)
		default:
			panic(fmt.Sprintf("nast.Print: unsupported definition %T (use gramdoc.Render)", def))
		}
	}
	d.End = p.pos()
}

func (p *printer) op(o *Operation) {
	o.Start = p.pos()
	if !o.Shorthand {
		p.w(o.Op)
		if o.Name != nil {
			p.sp()
			p.name(o.Name)
		}
		if len(o.Vars) > 0 {
			p.w("(")
			for i, v := range o.Vars {
				if i > 0 {
					p.w(", ")
				}
				v.Start = p.pos()
				p.variable(v.Var)
				p.w(": ")
				p.typ(v.Type)
				if v.Default != nil {
					p.w(" = ")
					p.value(v.Default)
				}
				v.End = p.pos()
			}
			p.w(")")
		}
		p.dirs(o.Directives)
		p.sp()
	}
	p.sel(o.Sel)
	o.End = p.pos()
}

func (p *printer) frag(f *Fragment) {
	f.Start = p.pos()
	p.w("fragment ")
	p.name(f.Name)
	p.w(" on ")
	p.typ(f.TypeCond)
	p.dirs(f.Directives)
	p.sp()
	p.sel(f.Sel)
	f.End = p.pos()
}

func (p *printer) dirs(ds []*Directive) {
	for _, d := range ds {
		p.sp()
		d.Start = p.pos()
		p.w("@")
		p.name(d.Name)
		p.args(d.Args)
		d.End = p.pos()
	}
}

func (p *printer) args(as []*Argument) {
	if len(as) == 0 {
		return
	}
	p.w("(")
	for i, a := range as {
		if i > 0 {
			p.w(", ")
		}
		a.Start = p.pos()
		p.name(a.Name)
		p.w(": ")
		p.value(a.Value)
		a.End = p.pos()
	}
	p.w(")")
}

func (p *printer) sel(s *SelectionSet) {
	s.Start = p.pos()
	p.w("{")
	for _, it := range s.Items {
		p.sp()
		switch v := it.(type) {
		case *Field:
			v.Start = p.pos()
			if v.Alias != nil {
				p.name(v.Alias)
				p.w(": ")
			}
			p.name(v.Name)
			p.args(v.Args)
			p.dirs(v.Directives)
			if v.Sel != nil {
				p.sp()
				p.sel(v.Sel)
			}
			v.End = p.pos()
		case *FragmentSpread:
			v.Start = p.pos()
			p.w("...")
			p.name(v.Name)
			p.dirs(v.Directives)
			v.End = p.pos()
		case *InlineFragment:
			v.Start = p.pos()
			p.w("...")
			if v.TypeCond != nil {
				p.w(" on ")
				p.typ(v.TypeCond)
			}
			p.dirs(v.Directives)
			p.sp()
			p.sel(v.Sel)
			v.End = p.pos()
		}
	}
	p.w(" }")
	s.End = p.pos()
}

func (p *printer) typ(t Node) {
	switch v := t.(type) {
	case *Named:
		v.Start = p.pos()
		p.name(v.Name)
		v.End = p.pos()
	case *List:
		v.Start = p.pos()
		p.w("[")
		p.typ(v.Of)
		p.w("]")
		v.End = p.pos()
	case *NonNull:
		v.Start = p.pos()
		p.typ(v.Of)
		p.w("!")
		v.End = p.pos()
	}
}

func (p *printer) variable(v *Variable) {
	v.Start = p.pos()
	p.w("$")
	p.name(v.Name)
	v.End = p.pos()
}

// QuoteString writes s as a GraphQL string literal.
func QuoteString(s string) string {
	var b strings.Builder
	b.WriteByte('"')
	for _, r := range s {
		switch r {
		case '"':
			b.WriteString(`\"`)
		case '\\':
			b.WriteString(`\\`)
		case '\b':
			b.WriteString(`\b`)
		case '\f':
			b.WriteString(`\f`)
		case '\n':
			b.WriteString(`\n`)
		case '\r':
			b.WriteString(`\r`)
		case '\t':
			b.WriteString(`\t`)
		default:
			if r < 0x20 || r == 0x7f {
				fmt.Fprintf(&b, `\u%04X`, r)
			} else {
				b.WriteRune(r)
			}
		}
	}
	b.WriteByte('"')
	return b.String()
}

func (p *printer) value(n Node) {
	switch v := n.(type) {
	case *Variable:
		p.variable(v)
	case *IntValue:
		v.Start = p.pos()
		p.w(v.Raw)
		v.End = p.pos()
	case *FloatValue:
		v.Start = p.pos()
		p.w(v.Raw)
		v.End = p.pos()
	case *StringValue:
		v.Start = p.pos()
		p.w(QuoteString(v.Value))
		v.End = p.pos()
	case *BooleanValue:
		v.Start = p.pos()
		if v.Value {
			p.w("true")
		} else {
			p.w("false")
		}
		v.End = p.pos()
	case *EnumValue:
		v.Start = p.pos()
		p.w(v.Value)
		v.End = p.pos()
	case *ListValue:
		v.Start = p.pos()
		p.w("[")
		for i, it := range v.Items {
			if i > 0 {
				p.w(", ")
			}
			p.value(it)
		}
		p.w("]")
		v.End = p.pos()
	case *ObjectValue:
		v.Start = p.pos()
		p.w("{")
		for i, f := range v.Fields {
			if i > 0 {
				p.w(", ")
			}
			f.Start = p.pos()
			p.name(f.Name)
			p.w(": ")
			p.value(f.Value)
			f.End = p.pos()
		}
		p.w("}")
		v.End = p.pos()
	}
}
